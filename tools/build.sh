#!/bin/bash
# build.sh <outdir> [extra cflags...] -- build the hooked library (libmyth-v.a) + vrt from /repo's working tree
set -e
V=$(dirname "$(dirname "$(realpath "$0")")")
OUT=$1; shift
REPO=${REPO:-/repo}
mkdir -p "$OUT"
CFG="$REPO/src/config.h"
INC="-I$REPO/include -I$REPO/src"
if [ ! -f "$CFG" ]; then mkdir -p "$OUT/cfg"; cp $V/tools/config.h.fallback "$OUT/cfg/config.h"; INC="$INC -I$OUT/cfg"; fi
CFLAGS="-O2 -g -DMYTH_VERIF -D_GNU_SOURCE -D_XOPEN_SOURCE -D_DARWIN_C_SOURCE -DMYTH_WRAP=MYTH_WRAP_VANILLA $INC -I$V/vrt -w $*"
SRCS="myth_log myth_sched myth_internal_barrier myth_bind_worker myth_worker myth_sync myth_init myth_misc myth_tls myth_thread myth_context myth_if_native myth_real myth_eco"
pids=()
for s in $SRCS; do
  gcc $CFLAGS -c "$REPO/src/$s.c" -o "$OUT/$s.o" 2> "$OUT/$s.err" &
  pids+=($!)
done
gcc -O2 -g -I$V/vrt -c $V/vrt/vrt.c -o "$OUT/vrt.o" 2> "$OUT/vrt.err" &
pids+=($!)
fail=0
for p in "${pids[@]}"; do wait $p || fail=1; done
if [ $fail = 1 ]; then cat "$OUT"/*.err | head -50 >&2; echo "BUILD FAILED" >&2; exit 2; fi
rm -f "$OUT/libmyth-v.a"
ar rcs "$OUT/libmyth-v.a" $(for s in $SRCS; do echo "$OUT/$s.o"; done) "$OUT/vrt.o"
echo "$CFLAGS" > "$OUT/cflags"
