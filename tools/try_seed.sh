#!/bin/bash
# try_seed.sh <name> <patch> <check id> [more ids...]
# Apply a seeded change to a scratch copy of /repo (never to /repo itself), run the listed checks against
# the copy with private build / replay / evidence directories, remove the copy.  Output: one line per check.
name=$1; patch=$2; shift 2
work=/tmp/seedtry_$name
rm -rf $work; mkdir -p $work
git -C /repo worktree add -q --detach $work/repo HEAD || exit 2
cp /repo/src/config.h $work/repo/src/ 2>/dev/null
(cd $work/repo && git apply "$patch") || { echo "$name: patch does not apply"; git -C /repo worktree remove --force $work/repo; exit 2; }
# work from a snapshot of /verif so that concurrent editing does not disturb the trial
rsync -a --exclude build --exclude build_th --exclude .git --exclude replay --exclude drafts /verif/ $work/verif/
for id in "$@"; do
  (cd $work/verif && VERIF_SKIP_MC=1 REPO=$work/repo VERIF_BUILD=$work/build VERIF_REPLAY=$work/replay VERIF_EVIDENCE=$work/evidence ./check.sh $id quick > $work/$id.log 2>&1
   echo "$name $id exit=$? violations=$(grep -c '^VIOLATION' $work/$id.log) first: $(grep -m1 -E '\] VIOLATION ' $work/$id.log | cut -c1-260)")
done
git -C /repo worktree remove --force $work/repo
rm -rf $work/build
