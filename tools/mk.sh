#!/bin/bash
# mk.sh <libdir> <out> <src...> [-- extra] : compile+link a harness against the hooked library
set -e
V=$(dirname "$(dirname "$(realpath "$0")")")
LIB=$1; OUT=$2; shift 2
REPO=${REPO:-/repo}
INC="-I$REPO/include -I$REPO/src -I$V/vrt"
[ -d "$LIB/cfg" ] && INC="$INC -I$LIB/cfg"
gcc -O1 -g -w -DMYTH_VERIF -D_GNU_SOURCE $INC -o "$OUT" "$@" "$LIB/libmyth-v.a" -lpthread -ldl -lrt
