import json
props=[json.loads(l) for l in open('/verif/properties.jsonl')]
claimed={
 'C02': dict(text='Bounded exhaustive TLC exploration of the run queues as abstract deques inside the Myth core specification (ExactlyOnePlace: every runnable thread is in exactly one queue / worker / hand-over slot; no stuck state), plus validation of every run-queue event (push, pop, put, take with the element returned) of real executions under seeded serialized schedules on 1..16 workers; scheduler-level deadlock/hang verdicts of the runtime count as violations.', ref='5 (C02)', tech='TLA+ spec (Myth.tla) model-checked with TLC + trace validation of hooked executions (MythTrace.tla)'),
 'C04': dict(text='TLC explores every interleaving of the mutex protocol (state word CAS steps, seat reservation, sleep-queue enqueue inside the block callback, wake-one with clear-bit) for 2-3 contending threads on 2 workers with the seat-accounting invariant, mutual exclusion and deadlock freedom; recorded executions of lock/trylock/unlock programs are validated step by step against the same actions.', ref='5 (C04)', tech='TLA+ spec (Myth.tla) model-checked with TLC + trace validation of hooked executions (MythTrace.tla)'),
 'C05': dict(text='TLC explores bounded-buffer and gate programs over the cond-wait protocol (enqueue then release inside the callback, signal/broadcast dequeue loops, re-lock on wake-up) for all schedules on 2 workers; recorded executions are validated against the same actions; lost wake-ups appear as stuck states (model) or DEADLOCK verdicts (runtime).', ref='5 (C05)', tech='TLA+ spec (Myth.tla) model-checked with TLC + trace validation of hooked executions (MythTrace.tla)'),
 'C06': dict(text='TLC explores the barrier protocol (count CAS, reset, collect N-1 sleepers from the CAS stack before publishing any) for 2-3 participants and 2 rounds; ghost counters check that no participant returns from round k before N calls of round k and that exactly one serial indicator is returned per round; recorded executions validated against the same actions.', ref='5 (C06)', tech='TLA+ spec (Myth.tla) model-checked with TLC + trace validation of hooked executions (MythTrace.tla)'),
 'C07': dict(text='TLC explores the join-counter word protocol (waiter announcement, decrement, wake exactly the recorded number of waiters) with waiters arriving before/between/after decrements; packing (bits, mask) is checked against the CalcBits operator; recorded executions validated against the same actions.', ref='5 (C07)', tech='TLA+ spec (Myth.tla) model-checked with TLC + trace validation of hooked executions (MythTrace.tla)'),
 'C08': dict(text='TLC explores the uncond hand-off (publish in callback after context save, signal spins until published, clear then push) under the documented mailbox protocol, early and late signals; recorded executions validated against the same actions.', ref='5 (C08)', tech='TLA+ spec (Myth.tla) model-checked with TLC + trace validation of hooked executions (MythTrace.tla)'),
 'C12': dict(text='The ledger part of the Myth specification (stack/record allocation from worker-local LIFO free lists, ownership, release only inside the finish callback after switching stacks, interval overlap of live stacks with rank-compressed addresses) is model-checked and every allocation/free event of real executions with default and custom stack sizes is validated against it.', ref='5 (C12)', tech='TLA+ spec (Myth.tla) model-checked with TLC + trace validation of hooked executions (MythTrace.tla)'),
 'C13': dict(text="Model-checked and trace-validated reaping: join, tryjoin, detach before/after finish and detach-state attribute; each thread reaped exactly once, records recycled (fresh allocation only when the worker's free list is empty), quiescent ledger at the end of the design model.", ref='5 (C13)', tech='TLA+ spec (Myth.tla) model-checked with TLC + trace validation of hooked executions (MythTrace.tla)'),
 'C14': dict(text='TLC explores once (load, CAS, init routine that yields, completion store, losers yield-wait) for 2-3 callers; ghosts check a single execution of the init routine and no return before its completion; recorded executions validated against the same actions.', ref='5 (C14)', tech='TLA+ spec (Myth.tla) model-checked with TLC + trace validation of hooked executions (MythTrace.tla)'),
 'C01': dict(text="Bounded exhaustive TLC exploration of the Myth core specification (create both orders, finish, join, yield, steal; every interleaving of the hook-level actions for 2 workers and up to 3 thread records) plus trace validation: every execution of the real library recorded under seeded serialized schedules must be a behaviour of the same specification with every invariant true in every state.",
             ref='5 (C01)', tech='TLA+ spec (Myth.tla) model-checked with TLC + trace validation of hooked executions (MythTrace.tla)'),
}
checks=[]
for pid,c in claimed.items():
    checks.append({
      'property_id': pid,
      'quick_cmd': './check.sh %s quick' % pid,
      'thorough_cmd': './check.sh %s thorough' % pid,
      'evidence_file': '/verif/evidence/%s.json' % pid,
      'replay_cmd_template': './check.sh %s --replay {path}' % pid,
      'engine': 'tlc-myth',
      'level_claimed': {'category': 'model_checking', 'text': c['text'], 'design_ref': 'DESIGN.md section '+c['ref']},
      'level_note': 'bounded design model; conformance per recorded execution under serialized (sequentially consistent) schedules; hooks trusted to sit next to the accesses they describe (bind self-test corrupts fields / drops events and requires rejection)',
      'technique': c['tech'],
    })
na=[{'property_id':p['id'],'reason':'check not built yet (work in progress; see DESIGN.md staging)'} for p in props if p['id'] not in claimed]
m={'version':1,
   'setup_cmd':'./setup.sh',
   'hooks':{'guard':'MYTH_VERIF','enable':'gcc -DMYTH_VERIF -I/verif/vrt over /repo/src/*.c (tools/build.sh), linked with /verif/vrt/vrt.c','baseline_off_cmd':'cd /repo && make -j16 check','source_commits':['0abd607','79b35ae'],'add_only':True},
   'engines':[{'name':'tlc-myth','path':'/verif/tools/verif.py','serves_properties':sorted(claimed),'kind_free_text':'TLC model checking of /verif/spec/*.tla + trace validation of executions of the hooked library driven by /verif/vrt'}],
   'checks':checks,
   'not_applicable':na,
   'notes':'See DESIGN.md. Genuine defects repaired so far are listed in known_findings.json.'}
json.dump(m,open('/verif/MANIFEST.json','w'),indent=1)
