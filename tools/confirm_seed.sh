#!/bin/bash
# confirm_seed.sh <Cxx> [<worktree>]: confirm a seeded change in its scratch worktree:
#   with the patch: builds, existing suite passes, demo fails; without: demo passes.
id=$1; wt=${2:-/tmp/wt_$id}; out=/tmp/confirm_$id.log
cd $wt || exit 2
{
echo "== $id in $wt"
git diff --stat -- src include | tail -3
echo "-- build+suite with patch"
(make -j8 > /dev/null 2>&1 && timeout 900 make -j8 check 2>&1 | grep -E "^# (PASS|FAIL|ERROR)") 
echo "-- demo with patch"
(cd seeded && timeout 900 bash ./run_demo.sh > /tmp/demo_${id}_with.log 2>&1; echo "demo_with_rc=$?")
echo "-- revert, rebuild, demo without patch"
git apply -R seeded/patch.diff && make -j8 > /dev/null 2>&1
(cd seeded && timeout 900 bash ./run_demo.sh > /tmp/demo_${id}_without.log 2>&1; echo "demo_without_rc=$?")
git apply seeded/patch.diff
} > $out 2>&1
cat $out
