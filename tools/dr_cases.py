#!/usr/bin/env python3
"""dr_cases.py <tlc-output> <behaviours-out>: convert the CASE lines of a DagRec run to the simulator's input;
prints the expected totals as JSON lines on stdout"""
import re, json, sys
cases = []
for l in open(sys.argv[1]):
    if l.startswith('<<"CASE"'):
        m = re.match(r'<<"CASE", "(.*)">>$', l.strip())
        cases.append(json.loads(m.group(1).encode().decode('unicode_escape')))
with open(sys.argv[2], 'w') as f:
    for c in cases:
        nw = max(s['w'] for s in c['steps']) + 1
        f.write('BEGIN %d %d\n' % (len(c['steps']), max(nw, 4)))
        for s in c['steps']:
            f.write('%s %d %d %d %d\n' % (s['op'], s['t'], s['w'], s['clk'], s['x']))
for c in cases:
    print(json.dumps(c['tot']))
