#!/usr/bin/env python3
"""dr_compare.py <expected.jsonl> <sim-output>: compare the recorder's reported totals with the specification's"""
import json, sys, re
exp = [json.loads(l) for l in open(sys.argv[1])]
bad = []
n = 0
for l in open(sys.argv[2]):
    p = l.split()
    if not p or not p[0].isdigit():
        continue
    i = int(p[0]); kv = dict(x.split('=', 1) for x in p[1:]); e = exp[i]; n += 1
    pairs = [('work', 'work'), ('tinf', 'tinf'), ('create', 'create'), ('wait', 'wait'), ('end', 'endn'), ('e_end', 'e_end'), ('e_create', 'e_create'),
             ('e_create_cont', 'e_create_cont'), ('e_wait_cont', 'e_wait_cont'), ('e_other_cont', 'e_other_cont')]
    diffs = ['%s: recorder %s, specification %d' % (a, kv[a], e[b]) for a, b in pairs if int(kv[a]) != e[b]]
    nodes = e['create'] + e['wait'] + e['other'] + e['endn'] + e['wait'] + e['create'] + 1
    if int(kv['nodes']) != nodes:
        diffs.append('dag nodes: recorder %s, specification %d' % (kv['nodes'], nodes))
    if kv['roundtrip'] != 'ok':
        diffs.append('roundtrip ' + kv['roundtrip'])
    if diffs:
        bad.append((i, diffs))
print(json.dumps({'compared': n, 'bad': bad[:20], 'nbad': len(bad)}))
