import sys
pid=sys.argv[1]
prop=open('/tmp/prop_%s.txt'%pid).read()
print(f"""You are helping to evaluate a verification effort for the C library MassiveThreads (a user-level thread library with a work-stealing scheduler). Your job: produce ONE realistic, subtle source change ("seeded bug") to the library that BREAKS the semantic property below, while the library still compiles and its existing test suite still passes.

Work ONLY inside the git worktree {'/tmp/wt_'+pid} (a checkout of the repository). Do not read or touch /repo or /verif, and do not look at anything outside the worktree except system headers/tools. The sources contain macros named MYTH_VERIF_* (instrumentation hooks that expand to nothing in a normal build): ignore them, do not remove or move them, and do not rely on them.

PROPERTY TO BREAK
{prop}

REQUIREMENTS FOR THE CHANGE
- A small edit to the library sources under src/ or include/ (a few lines), of the kind a maintainer could make by mistake: a reordered pair of statements, a wrong comparison, a missing fence/lock/unlock, an off-by-one, a wrong variable, a dropped re-check, two cooperating sites that each look fine alone, etc.
- It must need something SPECIFIC to manifest: a particular interleaving, a multi-step sequence of operations, an unusual input/configuration, a race window. NOT something ordinary use exposes immediately (the existing tests must still pass).
- The library must still compile, and the existing test suite must still pass: build with `cd {'/tmp/wt_'+pid} && ./configure >/dev/null && make -j8 >/dev/null` (src/config.h is already present; configure works offline), run the tests with `make -j8 check` (expect 257 passing tests, 0 failures; run it twice to be reasonably sure it is not flaky with your change).
- Provide a DEMONSTRATION: a small C program (demo.c, linked against the worktree's freshly built src/.libs/libmyth.so or libmyth.a with -I include) or a short script that FAILS (wrong output, assertion failure, hang detected by a timeout, crash) with your change and PASSES without it. It may need many iterations, several worker threads (MYTH_NUM_WORKERS), sched_yield/usleep-based nudging or other tricks to hit the window; state how often it fails (e.g. 7 out of 10 runs). If the window is too narrow to demonstrate reliably by running, you may additionally widen it for the demonstration only (e.g. a demo-only delay inserted via an environment variable is NOT allowed in the patch itself; but the demo may use many threads/iterations).

DELIVERABLES (write them into {'/tmp/wt_'+pid}/seeded/):
- patch.diff : output of `git diff` for your change only (the demo files must not be part of it)
- demo.c (and run_demo.sh that builds and runs it, exit status 0 = property held / non-zero = broken)
- NOTES.md : which property clause it breaks, the exact scenario/interleaving needed to manifest, what you ran and observed with and without the change (test-suite result, demo result counts).
Leave the worktree with the change applied and built. Finish by printing a short summary (the patch, and the observed demo results with and without the patch). Be efficient: do not spend more than about 30-40 minutes.""")
