#!/bin/bash
# build_wrap.sh <outdir> -- build the pthread-wrapping variants of the library (hooks off) from /repo's working
# tree: libmyth-ld.a (link-time wrapping, used with @myth-ld.opts) and libmyth-dl.so (preloading)
set -e
V=$(dirname "$(dirname "$(realpath "$0")")")
OUT=$1; shift
REPO=${REPO:-/repo}
mkdir -p "$OUT/ld" "$OUT/dl"
INC="-I$REPO/include -I$REPO/src"
if [ ! -f "$REPO/src/config.h" ]; then mkdir -p "$OUT/cfg"; cp $V/tools/config.h.fallback "$OUT/cfg/config.h"; INC="$INC -I$OUT/cfg"; fi
CF="-O2 -g -D_GNU_SOURCE -D_XOPEN_SOURCE -D_DARWIN_C_SOURCE $INC -w"
SRCS="myth_log myth_sched myth_internal_barrier myth_bind_worker myth_worker myth_sync myth_init myth_misc myth_tls myth_thread myth_context myth_if_native myth_real myth_eco myth_wrap_pthread myth_wrap_malloc myth_wrap_socket"
pids=()
for s in $SRCS; do
  gcc $CF -DMYTH_WRAP=MYTH_WRAP_LD -c "$REPO/src/$s.c" -o "$OUT/ld/$s.o" 2> "$OUT/ld/$s.err" & pids+=($!)
  gcc $CF -fPIC -DMYTH_WRAP=MYTH_WRAP_DL -c "$REPO/src/$s.c" -o "$OUT/dl/$s.o" 2> "$OUT/dl/$s.err" & pids+=($!)
done
fail=0
for p in "${pids[@]}"; do wait $p || fail=1; done
if [ $fail = 1 ]; then cat "$OUT"/ld/*.err "$OUT"/dl/*.err | head -50 >&2; echo "BUILD FAILED" >&2; exit 2; fi
rm -f "$OUT/libmyth-ld.a"
ar rcs "$OUT/libmyth-ld.a" $(for s in $SRCS; do echo "$OUT/ld/$s.o"; done)
gcc -shared -o "$OUT/libmyth-dl.so" $(for s in $SRCS; do echo "$OUT/dl/$s.o"; done) -lpthread -ldl
