#!/bin/bash
# run every quick check sequentially with the given seed
seed=$1; out=/tmp/allquick_$seed.log; : > $out
cd /verif
for id in C01 C02 C03 C04 C05 C06 C07 C08 C09 C10 C11 C12 C13 C14 C15 C16 C17 C18 C19 C20; do
  s=$(date +%s)
  VERIF_SEED=$seed ./check.sh $id quick > /tmp/allquick_${seed}_$id.log 2>&1; rc=$?
  echo "$id rc=$rc $(( $(date +%s) - s ))s $(grep -c '^VIOLATION' /tmp/allquick_${seed}_$id.log) $(tail -1 /tmp/allquick_${seed}_$id.log | cut -c1-120)" >> $out
done
echo DONE >> $out
