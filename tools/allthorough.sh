#!/bin/bash
out=/tmp/allthorough.log; : > $out
cd /verif
for id in "$@"; do
  s=$(date +%s)
  VERIF_BUILD=/verif/build_th VERIF_REPLAY=/tmp/replay_th VERIF_EVIDENCE=/tmp/evidence_th timeout 14400 ./check.sh $id thorough > /tmp/allthorough_$id.log 2>&1; rc=$?
  echo "$id rc=$rc $(( $(date +%s) - s ))s $(grep -c '^VIOLATION' /tmp/allthorough_$id.log) $(tail -1 /tmp/allthorough_$id.log | cut -c1-140)" >> $out
done
echo DONE >> $out
