#!/usr/bin/env python3
"""verif.py -- driver of the model-based verification of MassiveThreads.

  verif.py check <ID> quick|thorough      run the check of one property
  verif.py replay <ID> <path>             re-run a recorded violation

Per check: (0) rebuild the hooked library and harnesses from /repo's working tree,
(1) MC: TLC on the design configuration(s) of the property, (2) C->S: run harness programs
under seeded schedules and validate the recorded traces against the same specification,
(3) BIND: corrupt a recorded trace and require TLC to reject it, (4) write evidence.
Exit 0 = held on everything explored; exit 1 + "VIOLATION property=<id> replay=<path>";
exit 2 = infrastructure error (never reported as a violation).
"""
import concurrent.futures as cf
import hashlib, json, os, random, re, shutil, subprocess, sys, time

VERIF = os.path.dirname(os.path.dirname(os.path.abspath(__file__)))
REPO = os.environ.get('REPO', '/repo')
BUILD = os.environ.get('VERIF_BUILD', os.path.join(VERIF, 'build'))
REPLAY = os.environ.get('VERIF_REPLAY', os.path.join(VERIF, 'replay'))
EVIDENCE = os.environ.get('VERIF_EVIDENCE', os.path.join(VERIF, 'evidence'))
SPEC = os.path.join(VERIF, 'spec')
TLAJAR = '/opt/veriftools/tla/tla2tools.jar:/opt/veriftools/tla/CommunityModules-deps.jar'
NCPU = os.cpu_count() or 4


class Infra(Exception):
    pass


def sh(cmd, timeout=600, env=None, cwd=None, check=False):
    e = dict(os.environ)
    if env:
        e.update(env)
    try:
        p = subprocess.run(cmd, shell=isinstance(cmd, str), stdout=subprocess.PIPE, stderr=subprocess.STDOUT,
                           timeout=timeout, env=e, cwd=cwd)
        out = p.stdout.decode('utf-8', 'replace')
        rc = p.returncode
    except subprocess.TimeoutExpired as ex:
        out = (ex.stdout or b'').decode('utf-8', 'replace') + '\n[TIMEOUT]'
        rc = 124
    if check and rc != 0:
        raise Infra('command failed (%d): %s\n%s' % (rc, cmd, out[-2000:]))
    return rc, out


# ----------------------------------------------------------------------------- build
def build_lib(tag='lib', extra=''):
    out = os.path.join(BUILD, tag)
    rc, o = sh('%s/tools/build.sh %s %s' % (VERIF, out, extra), timeout=300, env={'REPO': REPO})
    if rc != 0:
        raise Infra('hooked build failed:\n' + o[-3000:])
    return out


def build_harness(lib, name, srcs, extra=''):
    out = os.path.join(BUILD, name)
    srcs = ' '.join(os.path.join(VERIF, 'harness', s) for s in srcs)
    rc, o = sh('%s/tools/mk.sh %s %s %s %s' % (VERIF, lib, out, srcs, extra), timeout=300, env={'REPO': REPO})
    if rc != 0:
        raise Infra('harness build failed:\n' + o[-3000:])
    return out


# ----------------------------------------------------------------------------- TLC
def java_tlc(args, heap='3g', gc='Serial', timeout=900, env=None, cwd=SPEC):
    cmd = ['java', '-XX:+Use%sGC' % gc, '-Xmx' + heap, '-cp', TLAJAR, 'tlc2.TLC'] + args
    return sh(cmd, timeout=timeout, env=env, cwd=cwd)


def parse_tlc(out):
    r = {'ok': False, 'states': 0, 'distinct': 0, 'depth': 0, 'violation': None, 'coverage': {}}
    m = re.search(r'(\d[\d,]*) states generated, (\d[\d,]*) distinct states found', out)
    if m:
        r['states'] = int(m.group(1).replace(',', ''))
        r['distinct'] = int(m.group(2).replace(',', ''))
    m = re.search(r'depth of the complete state graph search is (\d+)', out)
    if m:
        r['depth'] = int(m.group(1))
    if 'Model checking completed. No error has been found.' in out:
        r['ok'] = True
    # only a property failure is a verdict; any other error (parse failure, evaluation error, ...) is reported by the
    # caller as an infrastructure error
    m = re.search(r'Error: (Invariant (\S+) is violated|Temporal properties were violated|Deadlock reached|Action property (\S+) is violated|Assumption .* is false)', out)
    if m and not r['ok']:
        r['violation'] = m.group(1)
    for m in re.finditer(r'<(\w+) line \d+, col \d+ to line \d+, col \d+ of module \w+(?: \([\d ]+\))?>: (\d+):(\d+)', out):
        r['coverage'][m.group(1)] = max(r['coverage'].get(m.group(1), 0), int(m.group(3)))
    return r


def tlc_design(module, cfg, workers=NCPU, heap='6g', timeout=3000, coverage=True, extra=None, cwd=None):
    meta = os.path.join(BUILD, 'tlc', '%s_%s_%d' % (module, os.path.basename(cfg), os.getpid()))
    shutil.rmtree(meta, ignore_errors=True)
    os.makedirs(meta, exist_ok=True)
    args = ['-workers', str(workers), '-metadir', meta, '-config', cfg]
    if coverage:
        args += ['-coverage', '1']
    if extra:
        args += extra
    args += [module + '.tla']
    t0 = time.time()
    rc, out = java_tlc(args, heap=heap, gc='Parallel', timeout=timeout, cwd=cwd or SPEC)
    r = parse_tlc(out)
    r['rc'] = rc
    r['wall_s'] = round(time.time() - t0, 1)
    r['out'] = out
    r['module'] = module
    r['cfg'] = os.path.basename(cfg)
    shutil.rmtree(meta, ignore_errors=True)
    for f in os.listdir(SPEC):
        if '_TTrace_' in f:
            try:
                os.remove(os.path.join(SPEC, f))
            except OSError:
                pass
    if rc not in (0, 12, 13) and not r['violation']:
        raise Infra('TLC failed on %s/%s (rc %d):\n%s' % (module, cfg, rc, out[-3000:]))
    if rc == 124:
        raise Infra('TLC timed out on %s/%s' % (module, cfg))
    return r


# ----------------------------------------------------------------------------- traces
def read_trace(path):
    evs = []
    with open(path) as f:
        for line in f:
            line = line.strip()
            if line:
                evs.append(json.loads(line))
    return evs


def trace_bounds(evs_list):
    """universe sizes needed by the trace spec for these traces"""
    b = {'NW': 1, 'MaxD': 2, 'MaxS': 2, 'MaxTag': 1, 'MaxObj': 1, 'MaxL': 2, 'MaxQ': 1, 'NKeys': 1024}
    for evs in evs_list:
        for e in evs:
            n, a = e['e'], e['a']
            b['NW'] = max(b['NW'], e['w'] + 1)
            if n == 'Arm':
                b['NW'] = max(b['NW'], a[0])
            elif n == 'DescAlloc':
                b['MaxD'] = max(b['MaxD'], a[1]); b['MaxL'] = max(b['MaxL'], a[2])
            elif n == 'StackAlloc':
                b['MaxS'] = max(b['MaxS'], a[1])
            elif n in ('U_CreateCall',):
                b['MaxTag'] = max(b['MaxTag'], a[1])
            elif n == 'U_BodyStart':
                b['MaxTag'] = max(b['MaxTag'], a[0])
            if n in OBJ_EVENTS:
                for i in OBJ_EVENTS[n]:
                    if i < len(a):
                        b['MaxObj'] = max(b['MaxObj'], a[i])
            if n in Q_EVENTS:
                for i in Q_EVENTS[n]:
                    if i < len(a):
                        b['MaxQ'] = max(b['MaxQ'], a[i])
            if n == 'Block' and a[2] < 0:
                b['MaxObj'] = max(b['MaxObj'], -a[2])
            elif n in LOCK_EVENTS:
                b['MaxL'] = max(b['MaxL'], a[0])
    return b


# event name -> argument positions (0-based) holding synchronisation-object ids / sleep-queue ids
OBJ_EVENTS = {'MxLd': [0], 'MxCas': [0], 'MxWake': [0], 'MxClr': [0], 'CvWait': [0, 2], 'CvSignal': [0], 'BrLd': [0],
              'BrWake': [0], 'JcInit': [0], 'JcLd': [0], 'JcWake': [0], 'UcPub': [0], 'UcLd': [0], 'OnLd': [0],
              'FeChk': [0], 'FeMark': [0], 'U_LockCall': [1], 'U_TryLockCall': [1], 'U_CondWaitCall': [1, 2],
              'U_CondSignalCall': [1], 'U_BarrierCall': [1], 'U_JcWaitCall': [1], 'U_JcDecCall': [1],
              'U_UcWaitCall': [1], 'U_UcSignalCall': [1], 'U_OnceCall': [1], 'U_FeWaitLockCall': [1], 'U_FeMarkCall': [1]}
Q_EVENTS = {'SqEnq': [0], 'SqDeq': [0], 'StPush': [0], 'StPop': [0], 'Block': [1], 'MxWake': [1], 'CvWait': [1],
            'CvSignal': [1], 'BrWake': [1], 'JcWake': [1]}
LOCK_EVENTS = {'SpinAcq': 1, 'SpinRel': 1}


def write_cfg(path, spec, consts, invariants, postcondition='TraceAccepted', extra_lines=()):
    with open(path, 'w') as f:
        f.write('SPECIFICATION %s\nCONSTANTS\n' % spec)
        for k, v in consts.items():
            f.write(' %s = %s\n' % (k, v))
        for inv in invariants:
            f.write('INVARIANT %s\n' % inv)
        if postcondition:
            f.write('POSTCONDITION %s\n' % postcondition)
        for l in extra_lines:
            f.write(l + '\n')
        f.write('CHECK_DEADLOCK FALSE\n')


def validate_batch(module, tracefile, consts, invariants, workdir, tag):
    """returns dict(ok, matched, total, violation, states)"""
    cfg = os.path.join(workdir, 'tv_%s.cfg' % tag)
    write_cfg(cfg, 'TSpec', consts, invariants)
    meta = os.path.join(workdir, 'meta_%s' % tag)
    shutil.rmtree(meta, ignore_errors=True)
    rc, out = java_tlc(['-workers', '1', '-metadir', meta, '-config', cfg, module + '.tla'],
                       heap='3g', timeout=1200, env={'TRACE': tracefile})
    shutil.rmtree(meta, ignore_errors=True)
    r = {'ok': False, 'matched': 0, 'total': 0, 'violation': None, 'rc': rc, 'states': 0}
    m = re.search(r'"MATCHED", (\d+), "OF", (\d+)', out)
    if m:
        r['matched'], r['total'] = int(m.group(1)), int(m.group(2))
    m = re.search(r'(\d[\d,]*) states generated', out)
    if m:
        r['states'] = int(m.group(1).replace(',', ''))
    m = re.search(r'Error: Invariant (\S+) is violated', out)
    if m:
        r['violation'] = 'invariant ' + m.group(1)
        m2 = re.findall(r'^State (\d+):', out, re.M)
        if m2:
            r['matched'] = int(m2[-1]) - 1
        mb = re.search(r'bad = "([^"]*)"', out[out.rfind('State '):]) if 'State ' in out else None
        if mb and mb.group(1) != 'ok':
            r['violation'] += ': ' + mb.group(1)
    elif 'No error has been found' in out and r['total'] and r['matched'] == r['total']:
        r['ok'] = True
    elif m is None and r['total'] and r['matched'] < r['total']:
        r['violation'] = 'trace rejected'
    else:
        if rc not in (0, 12, 13):
            raise Infra('TLC trace validation failed (rc %d):\n%s' % (rc, out[-3000:]))
        r['violation'] = 'trace rejected'
    r['out_tail'] = out[-1500:]
    return r


def concat_traces(paths, out):
    with open(out, 'w') as f:
        first = True
        for p in paths:
            if not first:
                f.write('{"w":0,"e":"Reset","a":[]}\n')
            first = False
            with open(p) as g:
                f.write(g.read())


def validate_traces(module, traces, invariants, workdir, batch=12, extra_consts=None, log=None, bounds=True):
    """traces: list of paths. Returns (n_ok, failures[list of dict(trace, matched, total, violation, event)], states)"""
    os.makedirs(workdir, exist_ok=True)
    evs = {p: read_trace(p) for p in traces}
    batches = [traces[i:i + batch] for i in range(0, len(traces), batch)]
    fails, nok, states = [], 0, 0

    def run_batch(i, ps):
        bfile = os.path.join(workdir, 'batch_%d.ndjson' % i)
        concat_traces(ps, bfile)
        consts = trace_bounds([evs[p] for p in ps]) if bounds else {}
        if extra_consts:
            consts.update(extra_consts)
        r = validate_batch(module, bfile, consts, invariants, workdir, 'b%d' % i)
        return i, ps, r

    with cf.ThreadPoolExecutor(max_workers=NCPU) as ex:
        results = list(ex.map(lambda t: run_batch(*t), enumerate(batches)))
    singles = []
    for i, ps, r in results:
        states += r['states']
        if r['ok']:
            nok += len(ps)
        elif len(ps) == 1:
            singles.append((ps[0], r))
        else:
            singles.extend((p, None) for p in ps)

    def run_single(t):
        p, r = t
        if r is None:
            consts = trace_bounds([evs[p]]) if bounds else {}
            if extra_consts:
                consts.update(extra_consts)
            r = validate_batch(module, p, consts, invariants, workdir, 's' + hashlib.md5(p.encode()).hexdigest()[:8])
        return p, r

    with cf.ThreadPoolExecutor(max_workers=NCPU) as ex:
        for p, r in ex.map(run_single, singles):
            states += r['states']
            if r['ok']:
                nok += 1
            else:
                ev = evs[p][r['matched']] if r['matched'] < len(evs[p]) else None
                fails.append({'trace': p, 'matched': r['matched'], 'total': len(evs[p]),
                              'violation': r['violation'], 'event': ev, 'tlc_tail': r['out_tail']})
    return nok, fails, states


# ----------------------------------------------------------------------------- programs
OP = dict(END=0, CR=1, JN=2, TJ=3, DT=4, YD=5, EX=6, RET=7, LK=8, TL=9, UL=10, INC=11, CWAIT=12, CSIG=13, CBC=14,
          BAR=15, JCDEC=16, JCWAIT=17, UCWAIT=18, UCSIG=19, FEWL=20, FEMS=21, ONCE=22, KSET=23, KGET=24,
          SLEEP=25, TLK=26, TJN=27, SETV=28, WAITV=29, NEST=30, PROBE=31, KCREATE=32, KDELETE=33,
          CANCEL=34, TESTCANCEL=35, BUSY=36, FELK=37, FEUL=38, WAITGE=39, CBCO=40, JCPOKE=41, DEEP=42)
F_PF, F_DETACH, F_STACK, F_ATTR, F_NULLID, F_DIRTY = 1, 2, 4, 8, 16, 32


def write_prog(path, bodies, init=()):
    """init: list of (kind, idx, n): kind 1 barrier participants, 2 join-counter count, 3 buffer capacity"""
    if isinstance(bodies, dict):
        init = bodies.get('init', ())
        bodies = bodies['bodies']
    with open(path, 'w') as f:
        f.write('%d\n' % len(bodies))
        f.write('%d ' % len(init) + '  '.join('%d %d %d' % tuple(i) for i in init) + '\n')
        for ops in bodies:
            f.write('%d ' % len(ops) + '  '.join('%d %d %d %d' % tuple(o) for o in ops) + '\n')


def gen_core_prog(rng, maxb=8, flagset=(0, 0, 0, F_PF, F_DETACH, F_STACK, F_ATTR, F_PF | F_STACK, F_ATTR | F_DIRTY,
                                         F_NULLID | F_DETACH, F_DETACH | F_PF),
                  reap=('JN', 'JN', 'JN', 'TJ', 'DT'), yields=(0, 1, 2, 3, 4)):
    """random spawn tree: body k creates its children, does some yields, reaps every child it created
    (join / tryjoin loop / detach), ends by return, return of a value, or exit from a nested frame."""
    n = rng.randint(2, maxb)
    parent = {k: rng.randint(0, k - 1) for k in range(1, n)}
    bodies = [[] for _ in range(n)]
    for k in range(n):
        kids = [c for c in range(1, n) if parent[c] == k]
        pending = []
        ops = []
        todo = list(kids)
        while todo or pending:
            choices = []
            if todo:
                choices += ['cr', 'cr']
            if pending:
                choices += ['reap']
            choices += ['yd']
            ch = rng.choice(choices)
            if ch == 'cr':
                c = todo.pop(0)
                fl = rng.choice(flagset)
                pages = rng.choice((2, 3, 4, 5, 6, 7, 8, 16, 33)) if fl & F_STACK else 0
                ops.append((OP['CR'], c, fl, pages))
                if not (fl & F_DETACH):
                    pending.append(c)
            elif ch == 'reap':
                c = pending.pop(rng.randrange(len(pending)))
                ops.append((OP[rng.choice(reap)], c, 0, 0))
            else:
                ops.append((OP['YD'], rng.choice(yields), 0, 0))
        if rng.random() < 0.4:
            ops.append((OP['YD'], rng.choice(yields), 0, 0))
        if k > 0:
            e = rng.random()
            if e < 0.3:
                ops.append((OP['EX'], 2000 + k, 0, 0))
            elif e < 0.6:
                ops.append((OP['RET'], 3000 + k, 0, 0))
        bodies[k] = ops
    # a thread created with a custom stack size uses most of that stack (and is suspended there) at some point
    for k in range(n):
        for o in bodies[k]:
            if o[0] == OP['CR'] and (o[2] & F_STACK) and o[3] >= 4 and rng.random() < 0.7:
                c = o[1]
                bodies[c].insert(rng.randrange(len(bodies[c]) + 1) if bodies[c] and bodies[c][-1][0] not in (OP['EX'], OP['RET']) else 0, (OP['DEEP'], o[3], rng.choice((0, 2, 3)), 0))
    return bodies


def run_harness(binary, prog, out, nw, seed, strat='random', extra_env=None, timeout=120):
    env = {'VRT_NW': str(nw), 'VRT_SEED': str(seed), 'VRT_STRAT': strat, 'VRT_OUT': out}
    if extra_env:
        env.update(extra_env)
    if os.path.exists(out):
        os.remove(out)
    rc, o = sh([binary, prog], timeout=timeout, env=env)
    return rc, o


# ----------------------------------------------------------------------------- evidence
def write_evidence(pid, tier, seed, coverage, wall, violations, assumptions):
    ev = {'property_id': pid, 'tier': tier, 'seed': seed, 'level': 'model_checking', 'coverage': coverage,
          'assumptions': assumptions, 'wall_s': round(wall, 1), 'violations': violations}
    os.makedirs(EVIDENCE, exist_ok=True)
    with open(os.path.join(EVIDENCE, pid + '.json'), 'w') as f:
        json.dump(ev, f, indent=1)


def load_known():
    p = os.path.join(VERIF, 'known_findings.json')
    if os.path.exists(p):
        return json.load(open(p))
    return {'findings': [], 'fixed': []}


# ----------------------------------------------------------------------------- generic traced check
class Ctx:
    def __init__(self, pid, tier, seed):
        self.pid, self.tier, self.seed = pid, tier, seed
        self.t0 = time.time()
        self.work = os.path.join(BUILD, 'run_' + pid)
        shutil.rmtree(self.work, ignore_errors=True)
        os.makedirs(self.work)
        self.cov = {'states': 0, 'transitions': 0, 'traces_validated_against_impl': 0, 'samples': [],
                    'design_runs': [], 'trace_events': 0, 'schedules': 0, 'programs': 0,
                    'spec_actions_matched': {}, 'bind_selftest': []}
        self.violations = []
        self.known_hits = []
        self.assumptions = []
        self.quick = tier == 'quick'

    def log(self, *a):
        print('[%s %6.1fs]' % (self.pid, time.time() - self.t0), *a, flush=True)

    def violation(self, what, files=(), detail=None):
        """record a violation with a replay directory"""
        n = len(self.violations)
        d = os.path.join(REPLAY, '%s_%d' % (self.pid, n))
        shutil.rmtree(d, ignore_errors=True)
        os.makedirs(d)
        for f in files:
            if f and os.path.exists(f):
                shutil.copy(f, d)
        with open(os.path.join(d, 'violation.json'), 'w') as f:
            json.dump({'property': self.pid, 'what': what, 'detail': detail}, f, indent=1, default=str)
        self.violations.append({'what': what, 'replay': d})
        self.log('VIOLATION', what)

    def finish(self):
        wall = time.time() - self.t0
        write_evidence(self.pid, self.tier, self.seed, self.cov, wall, len(self.violations), self.assumptions)
        for k in self.known_hits:
            print('KNOWN-FINDING: property=%s %s' % (self.pid, k))
        if self.violations:
            for v in self.violations:
                print('VIOLATION property=%s replay=%s' % (self.pid, v['replay']))
            return 1
        self.log('OK states=%d traces=%d wall=%.0fs' % (self.cov['states'], self.cov['traces_validated_against_impl'], wall))
        return 0


def run_simulation(ctx, module, cfg, seconds=1500, depth=400):
    """a configuration too large to finish: random simulation (tlc -simulate) for a bounded time; every state of every
    generated behaviour is checked against the invariants of the configuration"""
    if os.environ.get('VERIF_SKIP_MC'):
        return
    meta = os.path.join(BUILD, 'tlc', 'sim_%s_%d' % (os.path.basename(cfg), os.getpid())); shutil.rmtree(meta, ignore_errors=True)
    ctx.log('SIM %s %s (%d s)' % (module, cfg, seconds))
    t0 = time.time()
    rc, out = java_tlc(['-simulate', 'num=100000000', '-depth', str(depth), '-seed', str(ctx.seed), '-workers', str(NCPU), '-metadir', meta, '-config', os.path.join(SPEC, cfg), module + '.tla'],
                       heap='8g', timeout=seconds)
    shutil.rmtree(meta, ignore_errors=True)
    for f in os.listdir(SPEC):
        if '_TTrace_' in f:
            try:
                os.remove(os.path.join(SPEC, f))
            except OSError:
                pass
    r = parse_tlc(out)
    m = re.findall(r'(\d[\d,]*) states checked', out)
    nst = int(m[-1].replace(',', '')) if m else 0
    if r['violation']:
        f = os.path.join(ctx.work, 'tlc_sim_%s.out' % cfg); open(f, 'w').write(out[-200000:])
        ctx.violation('design model %s/%s (simulation): %s' % (module, cfg, r['violation']), [f])
    elif rc not in (0, 124):
        raise Infra('TLC simulation failed on %s/%s (rc %d):\n%s' % (module, cfg, rc, out[-2000:]))
    ctx.cov['states'] += nst
    ctx.cov['design_runs'].append({'module': module, 'cfg': cfg + ' (simulation, %d s)' % seconds, 'states_checked': nst,
                                   'wall_s': round(time.time() - t0, 1), 'result': r['violation'] or 'ok'})
    ctx.log('   %d states checked in %.0fs' % (nst, time.time() - t0))


def run_design(ctx, module, cfg, expect_actions=(), heap='6g', timeout=3000, coverage=False):
    if cfg.endswith('_big.cfg') and module == 'MC_Core':
        return run_simulation(ctx, module, cfg)
    """TLC on a design configuration.  coverage=True (slow: use on a miniature configuration) additionally
    requires every action in expect_actions to have been taken at least once (vacuity guard)."""
    if os.environ.get('VERIF_SKIP_MC'):       # (used only when trying seeded changes of the implementation: the design runs do not depend on it)
        ctx.cov['states'] += 1; ctx.cov['transitions'] += 1
        return {'ok': True, 'coverage': {}}
    ctx.log('MC %s %s%s' % (module, cfg, ' (coverage)' if coverage else ''))
    r = tlc_design(module, os.path.join(SPEC, cfg), timeout=timeout, heap=heap, coverage=coverage)
    ctx.cov['states'] += r['distinct']
    ctx.cov['transitions'] += r['states']
    ctx.cov['design_runs'].append({'module': module, 'cfg': cfg, 'distinct_states': r['distinct'],
                                   'states_generated': r['states'], 'depth': r['depth'], 'wall_s': r['wall_s'],
                                   'result': 'ok' if r['ok'] else r['violation']})
    if not r['ok']:
        f = os.path.join(ctx.work, 'tlc_%s_%s.out' % (module, cfg))
        open(f, 'w').write(r['out'])
        ctx.violation('design model %s/%s: %s' % (module, cfg, r['violation']), [f, os.path.join(SPEC, cfg)])
        return r
    if coverage:
        missing = [a for a in expect_actions if r['coverage'].get(a, 0) == 0]
        if missing:
            raise Infra('vacuity: actions never taken in %s/%s: %s' % (module, cfg, missing))
        ctx.cov['design_runs'][-1]['actions_taken'] = {k: v for k, v in sorted(r['coverage'].items()) if v > 0 and k[0].isupper()}
    ctx.log('   %d distinct states, depth %d, %.0fs' % (r['distinct'], r['depth'], r['wall_s']))
    return r


def produce_traces(ctx, binary, progs, runs, label='t'):
    """progs: list of (name, bodies); runs: list of (prog_index, nw, seed, strat). Returns list of dict."""
    pdir = os.path.join(ctx.work, 'progs_' + label); os.makedirs(pdir, exist_ok=True)
    tdir = os.path.join(ctx.work, 'traces'); os.makedirs(tdir, exist_ok=True)
    ppaths = []
    for i, (name, bodies) in enumerate(progs):
        p = os.path.join(pdir, '%s_%d.prog' % (name, i))
        write_prog(p, bodies)
        ppaths.append(p)

    def one(t):
        k, (pi, nw, seed, strat) = t
        out = os.path.join(tdir, '%s_%d.ndjson' % (label, k))
        rc, o = run_harness(binary, ppaths[pi], out, nw, seed, strat)
        return {'k': k, 'prog': ppaths[pi], 'nw': nw, 'seed': seed, 'strat': strat, 'trace': out, 'rc': rc, 'binary': binary,
                'stderr': o[-400:]}

    with cf.ThreadPoolExecutor(max_workers=NCPU) as ex:
        res = list(ex.map(one, enumerate(runs)))
    return res


def check_runs(ctx, runs, binary):
    """harness-level verdicts: crash / deadlock / hang are violations (after re-running once to confirm)"""
    good = []
    for r in runs:
        if r['rc'] == 0 and os.path.exists(r['trace']):
            good.append(r)
            continue
        # a harness-level failure is a verdict only if a re-run from the same seed repeats it
        rcs = []
        for attempt in range(3):
            out2 = r['trace'] + '.rerun%d' % attempt
            rc2, o2 = run_harness(binary, r['prog'], out2, r['nw'], r['seed'], r['strat'])
            rcs.append(rc2)
            if rc2 == r['rc'] or rc2 == 0 or attempt >= 1:
                break
        if rcs[-1] != 0 and rcs[-1] != r['rc'] and all(x != 0 for x in rcs):
            rcs[-1] = r['rc']          # fails every time, if not always the same way (e.g. killed for memory, then time-out)
        if rcs[-1] == r['rc']:
            kind = {3: 'DEADLOCK', 4: 'CRASH', 5: 'HANG', 6: 'HANG after the trace was closed (finalisation never ends)', 124: 'TIMEOUT', -9: 'KILLED'}.get(r['rc'], 'exit %d' % r['rc'])
            r['verdict'] = kind
            r['bad'] = True
            good.append(r)   # its (truncated) trace is still validated: the rejection point localises the cause
        elif rcs[-1] == 0 and os.path.exists(out2):
            # not repeatable (the part of a run after the trace is closed is not serialized): the trace of the
            # re-run is validated like any other; the episode is recorded in the evidence
            ctx.cov.setdefault('unrepeatable_harness_failures', []).append({'rc': r['rc'], 'reruns': rcs, 'nw': r['nw'], 'seed': r['seed'], 'strat': r['strat'], 'prog': os.path.basename(r['prog'])})
            ctx.log('note: harness failure rc=%d not repeated by re-runs %s (nw=%d seed=%d)' % (r['rc'], rcs, r['nw'], r['seed']))
            r = dict(r, rc=0, trace=out2)
            good.append(r)
        else:
            raise Infra('inconsistent harness failures rc=%d then %s: %s' % (r['rc'], rcs, r['stderr']))
    return good


def count_actions(ctx, traces):
    for p in traces:
        for e in read_trace(p):
            ctx.cov['spec_actions_matched'][e['e']] = ctx.cov['spec_actions_matched'].get(e['e'], 0) + 1
            ctx.cov['trace_events'] += 1


def replay_cmdline(r):
    return 'VRT_NW=%d VRT_SEED=%d VRT_STRAT=%s VRT_OUT=trace.ndjson %s %s' % (r['nw'], r['seed'], r['strat'], r.get('binary', 'build/mythprog'), r['prog'])


def traced_check(ctx, binary, progs, runs, invariants, module='MythTrace', known=None, classify=None, label='t'):
    res = produce_traces(ctx, binary, progs, runs, label=label)
    res = check_runs(ctx, res, binary)
    byt = {r['trace']: r for r in res}
    traces = [r['trace'] for r in res if os.path.exists(r['trace'])]
    count_actions(ctx, traces)
    ctx.cov['schedules'] += len(runs)
    ctx.cov['programs'] += len(progs)
    ctx.log('C->S validating %d traces (%d events)' % (len(traces), ctx.cov['trace_events']))
    nok, fails, states = validate_traces(module, traces, invariants, os.path.join(ctx.work, 'tv_' + label))
    ctx.cov['traces_validated_against_impl'] += nok
    ctx.cov['trace_states'] = ctx.cov.get('trace_states', 0) + states
    failed_traces = set(f['trace'] for f in fails)
    for f in fails:
        r = byt[f['trace']]
        sig = classify(f, r) if classify else None
        if sig and known and sig in known:
            if known[sig] not in ctx.known_hits:
                ctx.known_hits.append(known[sig])
            continue
        what = '%s at event %d/%d %s (nw=%d seed=%d strat=%s%s)' % (
            f['violation'], f['matched'] + 1, f['total'], json.dumps(f['event']), r['nw'], r['seed'], r['strat'],
            ', harness verdict ' + r['verdict'] if r.get('verdict') else '')
        ctx.violation(what, [f['trace'], r['prog']], {'run': r, 'fail': f, 'replay_cmd': replay_cmdline(r)})
    for r in res:
        if r.get('bad') and r['trace'] not in failed_traces:
            # crashed / deadlocked although every recorded event was a legal step
            ctx.violation('harness verdict %s (nw=%d seed=%d strat=%s)' % (r['verdict'], r['nw'], r['seed'], r['strat']),
                          [r['trace'], r['prog']], {'run': r, 'replay_cmd': replay_cmdline(r)})
    if traces and not ctx.cov['samples']:
        r0 = byt[traces[0]]
        ctx.cov['samples'].append({'program': open(r0['prog']).read(), 'nw': r0['nw'], 'seed': r0['seed'],
                                   'trace_head': read_trace(traces[0])[:40]})
    return res, fails


def bind_selftest(ctx, trace, invariants, mutations, module='MythTrace', extra_consts=None, bounds=True):
    """corrupt one good trace in several ways; every corruption must be rejected"""
    evs = read_trace(trace)
    d = os.path.join(ctx.work, 'bind'); os.makedirs(d, exist_ok=True)
    paths, names = [], []
    for name, fn in mutations:
        m = fn([dict(e, a=list(e['a'])) for e in evs])
        if m is None:
            continue
        p = os.path.join(d, 'bind_%s.ndjson' % name)
        with open(p, 'w') as f:
            for e in m:
                f.write(json.dumps(e) + '\n')
        paths.append(p); names.append(name)
    if not paths:
        raise Infra('bind self-test: no applicable corruption for ' + trace)
    nok, fails, _ = validate_traces(module, paths, invariants, os.path.join(d, 'tv'), batch=1, extra_consts=extra_consts, bounds=bounds)
    rejected = set(f['trace'] for f in fails)
    for p, n in zip(paths, names):
        ok = p in rejected
        ctx.cov['bind_selftest'].append({'corruption': n, 'rejected': ok})
        if not ok:
            raise Infra('bind self-test: corrupted trace (%s) was ACCEPTED; the trace spec does not bind this field' % n)
    ctx.log('BIND %d corrupted traces rejected' % len(paths))


def mut_first(pred, fn):
    def m(evs):
        for i, e in enumerate(evs):
            if pred(e):
                return fn(evs, i)
        return None
    return m


def mut_pair(pred, fn):
    """first index i such that pred(evs[i], evs[i+1])"""
    def m(evs):
        for i in range(len(evs) - 1):
            if pred(evs[i], evs[i + 1]):
                return fn(evs, i)
        return None
    return m


def drop_at(evs, i):
    return evs[:i] + evs[i + 1:]


def swap_with_next(evs, i):
    if i + 1 >= len(evs):
        return None
    evs[i], evs[i + 1] = evs[i + 1], evs[i]
    return evs


def set_arg(pos, val):
    def f(evs, i):
        evs[i]['a'][pos] = val(evs[i]['a'][pos]) if callable(val) else val
        return evs
    return f


# ============================================================================= property checks
CORE_INV = ['OK', 'ExactlyOnePlace', 'RunnableSaved', 'RunOnce', 'ReapOnce', 'NoUseAfterFree', 'StackOwner']
CORE_ACTIONS = ['QPop', 'QTake', 'QPush', 'QPut', 'SchedRun', 'SpinAcq', 'SpinRel', 'DescAlloc', 'StackAlloc', 'MkCtx', 'CreateCF',
                'CreatePF', 'UCreateRet', 'CbEnter', 'CbExit', 'ThreadEntry', 'UBodyStart', 'FinWaiter', 'StackFree',
                'FinDet', 'Publish', 'DescFree', 'JoinChk', 'SetBlocked', 'JoinSet', 'JoinReap', 'UJoinRet',
                'TryJoinChk', 'UTryJoinRet', 'DetachQuick', 'DetachChk', 'SetDetached', 'UDetachRet', 'UYieldRet']
NWS_QUICK = (1, 2, 3, 4)
NWS_THOROUGH = (1, 2, 3, 4, 8, 16)


def core_runs(ctx, nprogs, per_prog, gen, nws):
    rng = random.Random(ctx.seed * 7919 + 13)
    progs = [('core', gen(rng)) for _ in range(nprogs)]
    runs = []
    for pi in range(nprogs):
        for j in range(per_prog):
            nw = nws[(pi + j) % len(nws)]
            strat = ('random', 'delay', 'pct', 'rr', 'delay', 'random')[(pi * 5 + j) % 6] if nw > 1 else 'random'
            runs.append((pi, nw, rng.randrange(1, 10 ** 6), strat))
    return progs, runs


def best_bind_trace(res, fails, binds, limit=40):
    """the accepted trace (several workers preferred) to which most of the corruptions apply"""
    bad = set(f['trace'] for f in fails)
    cands = [r for r in res if r['rc'] == 0 and r['trace'] not in bad]
    cands.sort(key=lambda r: (r['nw'] <= 1,))
    best, bestn = None, -1
    for r in cands[:limit]:
        evs = read_trace(r['trace'])
        n = 0
        for name, fn in binds:
            try:
                if fn([dict(e, a=list(e['a'])) for e in evs]) is not None:
                    n += 1
            except Exception:
                pass
        if n > bestn:
            best, bestn = r['trace'], n
        if n == len(binds):
            break
    return best


def first_good(res, fails):
    bad = set(f['trace'] for f in fails)
    for r in res:
        if r['rc'] == 0 and r['trace'] not in bad and r['nw'] > 1 and len(read_trace(r['trace'])) > 60:
            return r['trace']
    for r in res:
        if r['rc'] == 0 and r['trace'] not in bad:
            return r['trace']
    return None


def check_C01(ctx):
    lib = build_lib()
    binary = build_harness(lib, 'mythprog', ['mythprog.c'])
    run_design(ctx, 'MC_Core', 'MC_Core_cov.cfg', coverage=True, expect_actions=CORE_ACTIONS)
    run_design(ctx, 'MC_Core', 'MC_Core_small.cfg')
    if not ctx.quick:
        run_design(ctx, 'MC_Core', 'MC_Core_big.cfg')
    progs, runs = core_runs(ctx, 40 if ctx.quick else 400, 4 if ctx.quick else 8,
                            lambda rng: gen_core_prog(rng, reap=('JN', 'JN', 'JN', 'TJ')),
                            NWS_QUICK if ctx.quick else NWS_THOROUGH)
    res, fails = traced_check(ctx, binary, progs, runs, CORE_INV)
    # the same library with a 16-entry run queue: fork-join programs (fans of parent-first children, deep spawn trees)
    # whose queues reach the end of the array and are re-centred while they hold threads
    libq = build_lib('libq16', '-DINITIAL_QUEUE_SIZE=16')
    binq = build_harness(libq, 'mythprog_q16', ['mythprog.c'])
    ctx.seed += 1000
    progs2, runs2 = core_runs(ctx, 16 if ctx.quick else 160, 4, gen_queue_prog, NWS_QUICK if ctx.quick else NWS_THOROUGH)
    ctx.seed -= 1000
    traced_check(ctx, binq, progs2, runs2, CORE_INV, label='q')
    g = first_good(res, fails)
    if g:
        bind_selftest(ctx, g, CORE_INV, [
            ('joinreap_value', mut_first(lambda e: e['e'] == 'JoinReap', set_arg(1, lambda v: v + 1))),
            ('joinret_value', mut_first(lambda e: e['e'] == 'U_JoinRet', set_arg(2, lambda v: v + 1))),
            ('drop_publish', mut_first(lambda e: e['e'] == 'Publish', drop_at)),
            ('publish_after_unlock', mut_pair(lambda a, b: a['e'] == 'Publish' and b['e'] == 'SpinRel' and a['w'] == b['w'], swap_with_next)),
            ('bodystart_twice', mut_first(lambda e: e['e'] == 'U_BodyStart' and e['a'][0] > 0, lambda evs, i: evs[:i + 1] + [evs[i]] + evs[i + 1:])),
            ('wrong_arg', mut_first(lambda e: e['e'] == 'U_BodyStart' and e['a'][0] > 0, set_arg(1, 1))),
        ])
    ctx.assumptions += ['serialized (sequentially consistent) executions; hooks adjacent to the accesses they describe',
                        'bounded design model (2 workers, <=3 records); traces are samples of schedules']


def std_check(ctx, designs, gen, nprogs, per_prog, binds, nws=None, cov=None, thorough_designs=(), small_queue=False):
    lib = build_lib()
    binary = build_harness(lib, 'mythprog', ['mythprog.c'])
    if small_queue:
        # the same library with a 16-entry run queue, so that the re-centring paths of push / put are exercised
        libq = build_lib('libq16', '-DINITIAL_QUEUE_SIZE=16')
        binq = build_harness(libq, 'mythprog_q16', ['mythprog.c'])
    if cov:
        run_design(ctx, cov[0], cov[1], coverage=True, expect_actions=cov[2])
    for m, c in designs:
        run_design(ctx, m, c)
    if not ctx.quick:
        for m, c in thorough_designs:
            run_design(ctx, m, c, heap='24g', timeout=7200)
    if nws is None:
        nws = NWS_QUICK if ctx.quick else NWS_THOROUGH
    mult = 1 if ctx.quick else 10
    progs, runs = core_runs(ctx, nprogs * mult, per_prog, gen, nws)
    res, fails = traced_check(ctx, binary, progs, runs, CORE_INV)
    if small_queue:
        ctx.seed += 1000
        progs2, runs2 = core_runs(ctx, max(nprogs * mult // 2, 4), per_prog, gen, nws)
        ctx.seed -= 1000
        traced_check(ctx, binq, progs2, runs2, CORE_INV, label='q')
    g = best_bind_trace(res, fails, binds) if binds else None
    if g and binds:
        bind_selftest(ctx, g, CORE_INV, binds)
    ctx.assumptions += ['serialized (sequentially consistent) executions; hooks adjacent to the accesses they describe',
                        'bounded design model (2 workers, 2-3 threads); traces are samples of programs and schedules']
    return res, fails


def calibrate(ctx, module, cfg, what):
    """a design configuration that carries a model-level mutant must FAIL: shows that the bounds of the scenario are
    large enough to expose that class of defect (DESIGN 6.1)"""
    if os.environ.get('VERIF_SKIP_MC'):
        return
    r = tlc_design(module, os.path.join(SPEC, cfg), coverage=False, heap='6g', timeout=1800)
    if r['ok']:
        raise Infra('calibration: %s/%s (%s) is not detected' % (module, cfg, what))
    ctx.cov['design_runs'].append({'module': module, 'cfg': cfg + ' (calibration mutant: %s)' % what, 'result': r['violation'], 'expected': 'violation'})
    ctx.log('   calibration mutant %s: %s' % (what, r['violation']))


def ev(name, **kw):
    def pred(e):
        if e['e'] != name:
            return False
        for k, val in kw.items():
            i = int(k[1:])
            if i >= len(e['a']) or e['a'][i] != val:
                return False
        return True
    return pred


def gen_queue_prog(rng):
    """many runnable threads, every yield option, optionally the work-stealing API with a declining decision callback"""
    if rng.random() < 0.3:
        # fan: one thread pushes many children (parent first) without ever popping its own queue, so that with the
        # small-queue build the queue indices reach the end of the array and push / put re-centre the contents
        n = rng.randint(9, 14)
        kids = [[(OP['YD'], rng.choice((0, 1, 2, 3, 4)), 0, 0)] if rng.random() < 0.4 else [] for _ in range(n)]
        bodies = _spawn_join(rng, kids, flagset=(F_PF, F_PF, F_PF, 0))
    else:
        bodies = gen_core_prog(rng, maxb=12, flagset=(0, 0, F_PF), reap=('JN',), yields=(0, 1, 2, 3, 4))
    init = [(4, 0, rng.choice((1, 2, 3, 3)))] if rng.random() < 0.5 else []
    return {'init': init, 'bodies': bodies}


def fence_strengths(ctx, lib):
    """strength of the library's barrier functions as compiled: 'full' if the code contains a serialising
    instruction (xchg with memory, mfence, or a lock-prefixed instruction), else 'none' (compiler barrier only)"""
    src = os.path.join(ctx.work, 'fence_stub.c')
    open(src, 'w').write('#include "myth_mem_barrier_func.h"\nvoid f_r(void){ myth_rbarrier(); }\nvoid f_w(void){ myth_wbarrier(); }\nvoid f_rw(void){ myth_rwbarrier(); }\n')
    obj = os.path.join(ctx.work, 'fence_stub.o')
    inc = '-I%s/include -I%s/src -I%s/vrt %s' % (REPO, REPO, VERIF, ('-I%s/cfg' % lib) if os.path.isdir(lib + '/cfg') else '')
    rc, o = sh('gcc -O2 -c -w -D_GNU_SOURCE %s %s -o %s && objdump -d %s' % (inc, src, obj, obj), timeout=120)
    if rc != 0:
        raise Infra('fence stub: ' + o[-1000:])
    res = {}
    cur = None
    for l in o.split('\n'):
        m = re.match(r'^[0-9a-f]+ <(f_\w+)>:', l)
        if m:
            cur = m.group(1); res[cur] = 'none'
        elif cur and re.search(r'\b(xchg|mfence|lock)\b', l):
            res[cur] = 'full'
    return res.get('f_r', 'none'), res.get('f_w', 'none'), res.get('f_rw', 'none')


def wsq_cfg(ctx, base, fr, frw):
    """copy of a WSQueue configuration with the extracted fence strengths"""
    t = open(os.path.join(SPEC, base)).read()
    t = re.sub(r' FenceR = "\w+"', ' FenceR = "%s"' % fr, t)
    t = re.sub(r' FenceRW = "\w+"', ' FenceRW = "%s"' % frw, t)
    out = os.path.join(SPEC, 'gen_' + base)
    open(out, 'w').write(t)
    return 'gen_' + base


def wsq_level_f(ctx, lib):
    fr, fw, frw = fence_strengths(ctx, lib)
    ctx.log('fence strengths from object code: rbarrier=%s wbarrier=%s rwbarrier=%s' % (fr, fw, frw))
    ctx.cov['fence_strengths'] = {'rbarrier': fr, 'wbarrier': fw, 'rwbarrier': frw}
    cfgs = ['WSQueue_sc1.cfg', 'WSQueue_tso1.cfg'] + ([] if ctx.quick else ['WSQueue_sc2.cfg', 'WSQueue_tso2.cfg'])
    for c in cfgs:
        g = wsq_cfg(ctx, c, fr, frw)
        try:
            run_design(ctx, 'WSQueue', g, heap='24g' if not ctx.quick else '8g', timeout=7200)
        finally:
            os.remove(os.path.join(SPEC, g))
    # calibration: the TSO configuration must notice a weakened owner/thief fence (otherwise its bounds are too small)
    if not os.environ.get('VERIF_SKIP_MC'):
        g = wsq_cfg(ctx, 'WSQueue_tso1.cfg', fr, 'none')
        r = tlc_design('WSQueue', os.path.join(SPEC, g), coverage=False, heap='8g', timeout=1800)
        os.remove(os.path.join(SPEC, g))
        if r['ok'] and frw == 'full':
            raise Infra('calibration: WSQueue_tso1 does not detect a missing full fence')
        ctx.cov['design_runs'].append({'module': 'WSQueue', 'cfg': 'WSQueue_tso1.cfg with rwbarrier=none (calibration mutant)', 'result': r['violation'], 'expected': 'violation'})
    # S->C: strict replay of TLC behaviours, one labelled shared access at a time, in the real queue code
    unit = os.path.join(BUILD, 'unit_wsq')
    inc = '-I%s/include -I%s/src %s' % (REPO, REPO, ('-I%s/cfg' % lib) if os.path.isdir(lib + '/cfg') else '')
    rc, o = sh('gcc -O1 -g -w -D_GNU_SOURCE -DINITIAL_QUEUE_SIZE=4 -DMYTH_WRAP=MYTH_WRAP_VANILLA %s -o %s %s/harness/unit_wsq.c -lpthread' % (inc, unit, VERIF), timeout=300)
    if rc != 0:
        raise Infra('unit_wsq build failed: ' + o[-2000:])
    nb = 0; nsteps = 0
    labels = set()
    for cfg in ('WSQReplay.cfg', 'WSQReplay2.cfg', 'WSQReplay3.cfg', 'WSQReplay4.cfg'):
        meta = os.path.join(BUILD, 'tlc', 'wsr_%d' % os.getpid()); shutil.rmtree(meta, ignore_errors=True)
        rc, out = java_tlc(['-simulate', 'num=%d' % (60 if ctx.quick else 600), '-depth', '41', '-seed', str(ctx.seed), '-workers', '4', '-metadir', meta, '-config', cfg, 'WSQReplay.tla'],
                           heap='4g', timeout=1200)
        shutil.rmtree(meta, ignore_errors=True)
        bf = os.path.join(ctx.work, 'behaviours_%s.out' % cfg)
        open(bf, 'w').write(out)
        if 'BEHAVIOUR' not in out:
            raise Infra('no behaviours generated by %s: %s' % (cfg, out[-1000:]))
        labels |= set(re.findall(r'\\"from\\":\\"(\w+)', out))
        ib = re.search(r'INITBASE = (\d+)', open(os.path.join(SPEC, cfg)).read()).group(1)
        rc, o = sh(['python3', os.path.join(VERIF, 'tools', 'wsq_replay.py'), bf, unit, ib], timeout=900)
        m = re.search(r'behaviours=(\d+) steps=(\d+) failed=(\d+)', o)
        if not m:
            ctx.violation('queue unit harness died while replaying specification behaviours (%s): %s' % (cfg, o[-300:]), [bf])
            continue
        nb += int(m.group(1)); nsteps += int(m.group(2))
        if int(m.group(3)) > 0:
            first = [l for l in o.split('\n') if l.startswith(('DIVERGE', 'MISMATCH'))][:1]
            ctx.violation('%s of %s specification behaviours of the run queue are not reproduced by the code: %s' % (m.group(3), m.group(1), first), [bf])
    # vacuity guard: the re-centring paths of push and put and every other labelled step must have been replayed
    need = {'push_shift', 'push_uls', 'put_w', 'pop_slow', 'pop_fast', 'pop_reset2', 'take_ldt', 'pass_dec'}
    if not need <= labels:
        raise Infra('vacuity: queue steps never replayed: %s' % sorted(need - labels))
    ctx.cov['queue_steps_replayed'] = sorted(labels)
    ctx.cov['behaviours_replayed_into_impl'] = nb
    ctx.cov['replayed_steps'] = nsteps
    ctx.cov['traces_validated_against_impl'] += nb
    ctx.log('S->C %d specification behaviours (%d steps) replayed in the real queue code' % (nb, nsteps))
    # binding self-test: the same replay against a mutated copy of the queue source must diverge
    mdir = os.path.join(ctx.work, 'mut'); os.makedirs(mdir, exist_ok=True)
    src = open(os.path.join(REPO, 'src', 'myth_wsqueue_func.h')).read()
    mut = src.replace('  b = q->base;\n  q->base = b + 1;\n  MYTH_VERIF_FPOINT("take_f");', '  b = q->base;\n  q->base = b + 2;\n  MYTH_VERIF_FPOINT("take_f");', 1)
    if mut == src:
        raise Infra('bind self-test: mutation site not found in myth_wsqueue_func.h')
    open(os.path.join(mdir, 'myth_wsqueue_func.h'), 'w').write(mut)
    rc, o = sh('gcc -O1 -g -w -D_GNU_SOURCE -DINITIAL_QUEUE_SIZE=4 -DMYTH_WRAP=MYTH_WRAP_VANILLA -I%s %s -o %s %s/harness/unit_wsq.c -lpthread' % (mdir, inc, unit + '_mut', VERIF), timeout=300)
    if rc != 0:
        raise Infra('mutated unit_wsq build failed: ' + o[-2000:])
    rc, o = sh(['python3', os.path.join(VERIF, 'tools', 'wsq_replay.py'), os.path.join(ctx.work, 'behaviours_WSQReplay.cfg.out'), unit + '_mut'], timeout=900)
    m = re.search(r'failed=(\d+)', o)
    if not m or int(m.group(1)) == 0:
        raise Infra('bind self-test: the replay does not notice a mutated take() (base advanced by 2)')
    ctx.cov['bind_selftest'].append({'corruption': 'take(): base advanced by 2 in a copy of the source', 'rejected': True, 'behaviours_diverging': int(m.group(1))})


def check_C02(ctx):
    wsq_level_f(ctx, build_lib())
    run_design(ctx, 'PeekCache', 'PeekCache.cfg' if ctx.quick else 'PeekCache_big.cfg', timeout=3600)      # the hint cache of the work-stealing API's peek (model only)
    std_check(ctx, [('MC_Core', 'MC_Core_small.cfg')], gen_queue_prog, 30, 6,
              [('qtake_wrong_thread', mut_first(lambda e: e['e'] == 'QTake' and e['a'][1] > 0, set_arg(1, lambda v: v + 1))),
               ('qpop_duplicate', mut_first(lambda e: e['e'] == 'QPop' and e['a'][1] > 0, lambda evs, i: evs[:i + 1] + [evs[i]] + evs[i + 1:])),
               ('drop_qpush', mut_first(ev('QPush'), drop_at)),
               ('schedrun_other', mut_first(ev('SchedRun'), set_arg(0, lambda v: v + 1)))],
              cov=('MC_Core', 'MC_Core_cov.cfg', CORE_ACTIONS), small_queue=True, thorough_designs=[('MC_Core', 'MC_Core_wsapi.cfg')])


def check_C04(ctx):
    std_check(ctx, [('MC_Sync', 'MC_Sync_mutex.cfg')], gen_mutex_prog, 30, 6,
              [('cas_result_flipped', mut_first(lambda e: e['e'] == 'MxCas' and e['a'][3] == 1, set_arg(3, 0))),
               ('drop_clear_bit', mut_first(ev('MxClr'), drop_at)),
               ('push_before_clear', mut_pair(lambda a, b: a['e'] == 'MxClr' and b['e'] == 'QPush' and a['w'] == b['w'], swap_with_next)),
               ('enq_dropped', mut_first(ev('SqEnq'), drop_at)),
               ('double_acquire', mut_first(ev('U_LockRet'), lambda evs, i: evs[:i + 1] + [dict(evs[i], w=evs[i]['w'])] + evs[i + 1:]))],
              thorough_designs=[('MC_Sync', 'MC_Sync_mutex3.cfg')])


def check_C05(ctx):
    std_check(ctx, [('MC_Sync', 'MC_Sync_cond.cfg'), ('MC_Sync', 'MC_Sync_gate2.cfg')], gen_cond_prog, 30, 6,
              [('unlock_before_enqueue', mut_pair(lambda a, b: a['e'] == 'SqEnq' and b['e'] == 'MxLd' and a['w'] == b['w'], swap_with_next)),
               ('signal_wakes_wrong', mut_first(lambda e: e['e'] == 'SqDeq' and e['a'][1] > 0, set_arg(1, lambda v: v + 1))),
               ('wait_returns_without_lock', mut_first(ev('U_CondWaitRet'), lambda evs, i: evs[:i] + [evs[i]] + evs[i:i + 1] + evs[i + 1:])),
               ('drop_cvsignal_push', mut_first(lambda e: e['e'] == 'SqDeq' and e['a'][1] > 0, lambda evs, i: drop_at(evs, i + 1)))],
              thorough_designs=[('MC_Sync', 'MC_Sync_cond3.cfg'), ('MC_Sync', 'MC_Sync_gate.cfg')])


def sstack_level_f(ctx, lib):
    """Level F of the sleep stack the barrier parks its waiters on: exhaustive TLC runs, a calibration mutant, and
    strict replay of TLC behaviours in the real push / pop code"""
    for c in (['SleepStack_3.cfg'] if ctx.quick else ['SleepStack_3.cfg', 'SleepStack_4.cfg']):
        run_design(ctx, 'SleepStack', c)
    if not os.environ.get('VERIF_SKIP_MC'):
        g = os.path.join(SPEC, 'gen_SleepStack_mut.cfg')
        open(g, 'w').write(open(os.path.join(SPEC, 'SleepStack_3.cfg')).read().replace('MUTANT = "none"', 'MUTANT = "fastpop"'))
        try:
            r = tlc_design('SleepStack', g, coverage=False, heap='4g', timeout=900)
        finally:
            os.remove(g)
        if r['ok']:
            raise Infra('calibration: SleepStack_3 does not detect the non-atomic single-element pop')
        ctx.cov['design_runs'].append({'module': 'SleepStack', 'cfg': 'SleepStack_3.cfg with MUTANT=fastpop (calibration)', 'result': r['violation'], 'expected': 'violation'})
    unit = os.path.join(BUILD, 'unit_sstack')
    inc = '-I%s/include -I%s/src %s' % (REPO, REPO, ('-I%s/cfg' % lib) if os.path.isdir(lib + '/cfg') else '')
    rc, o = sh('gcc -O1 -g -w -D_GNU_SOURCE -DMYTH_WRAP=MYTH_WRAP_VANILLA %s -o %s %s/harness/unit_sstack.c -lpthread' % (inc, unit, VERIF), timeout=300)
    if rc != 0:
        raise Infra('unit_sstack build failed: ' + o[-2000:])
    meta = os.path.join(BUILD, 'tlc', 'ssr_%d' % os.getpid()); shutil.rmtree(meta, ignore_errors=True)
    rc, out = java_tlc(['-simulate', 'num=%d' % (60 if ctx.quick else 600), '-depth', '49', '-seed', str(ctx.seed), '-workers', '4', '-metadir', meta, '-config', 'SSReplay.cfg', 'SSReplay.tla'],
                       heap='4g', timeout=1200)
    shutil.rmtree(meta, ignore_errors=True)
    behs = []
    for l in out.split('\n'):
        m = re.match(r'<<"BEHAVIOUR", "(.*)">>$', l.strip())
        if m:
            behs.append(json.loads(m.group(1).encode().decode('unicode_escape')))
    if len(behs) < 20:
        raise Infra('no sleep-stack behaviours generated: ' + out[-800:])
    pid = {'a': 0, 'b': 1, 'c': 2, 'pop': 3}
    bf = os.path.join(ctx.work, 'sstack_behaviours.txt')
    labels = set()
    with open(bf, 'w') as f:
        for b in behs:
            f.write('BEGIN %d\n' % len(b))
            for e in b:
                nx = e['next']
                nxl = [nx[i] for i in range(6)] if isinstance(nx, list) else [nx[str(i)] for i in range(1, 7)]
                labels.add(e['from'])
                f.write('%d %s %s %d %d %s\n' % (pid[e['p']], e['from'], e['to'], e['x'], e['top'], ' '.join(map(str, nxl))))
    if not {'stpush_ld', 'stpush_cas', 'stpop_ld', 'stpop_cas'} <= labels:
        raise Infra('vacuity: sleep-stack steps never replayed: %s' % sorted(labels))
    rc, o = sh([unit, bf], timeout=600)
    m = re.search(r'behaviours=(\d+) steps=(\d+) failed=(\d+)', o)
    if not m:
        ctx.violation('sleep-stack unit harness died while replaying specification behaviours: %s' % o[-300:], [bf])
        return
    ctx.cov['behaviours_replayed_into_impl'] = ctx.cov.get('behaviours_replayed_into_impl', 0) + int(m.group(1))
    ctx.cov['replayed_steps'] = ctx.cov.get('replayed_steps', 0) + int(m.group(2))
    if int(m.group(3)) > 0:
        first = [l for l in o.split('\n') if l.startswith(('DIVERGE', 'MISMATCH'))][:1]
        ctx.violation('%s of %s specification behaviours of the sleep stack are not reproduced by the code: %s' % (m.group(3), m.group(1), first), [bf])
    ctx.log('S->C %s sleep-stack behaviours (%s steps) replayed in the real push / pop code' % (m.group(1), m.group(2)))


def check_C06(ctx):
    sstack_level_f(ctx, build_lib())
    std_check(ctx, [('MC_Sync', 'MC_Sync_barrier.cfg')], gen_barrier_prog, 30, 6,
              [('early_pass', mut_first(lambda e: e['e'] == 'U_BarrierCall', lambda evs, i: evs[:i + 1] + [{'w': evs[i]['w'], 'e': 'U_BarrierRet', 'a': [evs[i]['a'][0], evs[i]['a'][1], 0, 2]}] + evs[i + 1:])),
               ('serial_flag_flipped', mut_first(lambda e: e['e'] == 'U_BarrierRet' and e['a'][2] == 1, set_arg(2, 0))),
               ('drop_pop', mut_first(lambda e: e['e'] == 'StPop' and e['a'][1] > 0, drop_at)),
               ('cas_count', mut_first(lambda e: e['e'] == 'BrLd', set_arg(1, lambda v: v + 1)))],
              thorough_designs=[('MC_Sync', 'MC_Sync_barrier3.cfg')])


def check_C07(ctx):
    std_check(ctx, [('MC_Sync', 'MC_Sync_jc.cfg')], gen_jc_prog, 30, 6,
              [('wake_count', mut_first(lambda e: e['e'] == 'JcWake', set_arg(2, lambda v: v + 1))),
               ('early_return', mut_first(lambda e: e['e'] == 'U_JcWaitCall', lambda evs, i: evs[:i + 1] + [{'w': evs[i]['w'], 'e': 'U_JcWaitRet', 'a': [evs[i]['a'][0], evs[i]['a'][1], 1]}] + evs[i + 1:])),
               ('cas_word', mut_first(lambda e: e['e'] == 'JcCas' and e['a'][5] == 1, set_arg(4, lambda v: v + 1)))],
              thorough_designs=[('MC_Sync', 'MC_Sync_jc4.cfg')])


def check_C08(ctx):
    std_check(ctx, [('MC_Sync', 'MC_Sync_uncond.cfg')], gen_uncond_prog, 30, 6,
              [('drop_publish', mut_first(ev('UcPub'), drop_at)),
               ('resume_without_signal', mut_first(lambda e: e['e'] == 'U_UcSignalCall', drop_at)),
               ('push_before_clear', mut_pair(lambda a, b: a['e'] == 'UcClr' and b['e'] == 'QPush' and a['w'] == b['w'], swap_with_next))], small_queue=True)


def check_C09(ctx):
    calibrate(ctx, 'MC_Sync', 'MC_Sync_felockr_mut.cfg', 'mark_and_signal does not signal when the status is unchanged')
    std_check(ctx, [('MC_Sync', 'MC_Sync_felock.cfg'), ('MC_Sync', 'MC_Sync_felockr.cfg')], gen_felock_prog, 30, 6,
              [('status_not_published', mut_first(ev('FeMark'), drop_at)),
               ('returns_with_wrong_status', mut_first(lambda e: e['e'] == 'FeChk' and e['a'][1] != e['a'][2], lambda evs, i: set_arg(1, evs[i]['a'][2])(evs, i))),
               ('unlock_before_signal', mut_pair(lambda a, b: a['e'] == 'CvSignal' and b['e'] == 'SqDeq', lambda evs, i: drop_at(evs, i)))],
              thorough_designs=[('MC_Sync', 'MC_Sync_felock4.cfg')])


def keys_across_inits(ctx, lib):
    """C10 across (re-)initialisations: init/fini histories in which every generation exhausts the keys (exactly 1024
    pairwise distinct keys, then refusal), deletes the first and the last one and leaves the rest behind"""
    binary = build_harness(lib, 'initfini', ['initfini.c'])
    rng = random.Random(ctx.seed * 17 + 3)
    tdir = os.path.join(ctx.work, 'iftraces'); os.makedirs(tdir, exist_ok=True)
    traces = []
    for h in range(4 if ctx.quick else 20):
        gens = ['a:%dk' % rng.choice((1, 2, 3, 4)) for _ in range(rng.randint(2, 4))]
        out = os.path.join(tdir, 'kif_%d.ndjson' % h)
        rc, o = sh([binary, out] + gens, timeout=180)
        if rc != 0:
            rc, o = sh([binary, out] + gens, timeout=180)      # a failure is a verdict only if a second run repeats it
        if rc != 0:
            f_ = os.path.join(ctx.work, 'kifrun_%d.txt' % h); open(f_, 'w').write(json.dumps({'gens': gens, 'rc': rc, 'out': o[-500:]}))
            ctx.violation('init/fini history %s with key exhaustion in every generation: %s' % (gens, 'hang (time-out)' if rc == 124 else 'exit status %d' % rc), [f_])
            continue
        filt = out + '.f'
        with open(filt, 'w') as f:
            for e in read_trace(out):
                if e['e'] in IF_EVENTS:
                    f.write(json.dumps(e) + '\n')
        traces.append(filt)
    if traces:
        nok, fails, _ = validate_traces('InitFiniTrace', traces, ['IFOK'], os.path.join(ctx.work, 'tvk'), batch=4,
                                        extra_consts={'MaxNW': 64, 'NCPU': os.cpu_count()}, bounds=False)
        ctx.cov['traces_validated_against_impl'] += nok
        for f in fails:
            ctx.violation('%s at event %d/%d %s' % (f['violation'], f['matched'] + 1, f['total'], json.dumps(f['event'])), [f['trace']])
        ctx.log('C->S %d init/fini histories with key exhaustion validated' % nok)


def check_C10(ctx):
    keys_across_inits(ctx, build_lib())
    res, fails = std_check(ctx, [('MC_Sync', 'MC_Sync_keys.cfg')], lambda rng: gen_tls_prog(rng, churn=rng.random() < 0.4), 24, 5,
              [('value_of_other_thread', mut_first(lambda e: e['e'] == 'U_GetSpecific' and e['a'][2] > 0, set_arg(2, lambda v: v + 1))),
               ('lost_value', mut_first(lambda e: e['e'] == 'U_GetSpecific' and e['a'][2] > 0, set_arg(2, 0))),
               ('duplicate_live_key', mut_first(lambda e: e['e'] == 'KaCas' and e['a'][2] == 1, lambda evs, i: [dict(e, a=[x + (1 if (e['e'] in ('KaLd', 'KaNext', 'KaCas') and j == 0) else 0) for j, x in enumerate(e['a'])]) if False else e for e in evs][:i] + [dict(evs[i], a=[evs[i]['a'][0], evs[i]['a'][0], 1])] + evs[i + 1:])),
               ('invalid_index_accepted', mut_first(lambda e: e['e'] == 'U_SetSpecific' and e['a'][3] != 0, set_arg(3, 0)))])


def check_C11(ctx):
    std_check(ctx, [('MC_Sync', 'MC_Sync_keys.cfg')], lambda rng: gen_tls_prog(rng, churn=False), 24, 5,
              [('destructor_skipped', mut_first(lambda e: e['e'] == 'U_Dtor' and e['a'][2] != 0, drop_at)),
               ('destructor_twice', mut_first(lambda e: e['e'] == 'U_Dtor' and e['a'][2] != 0, lambda evs, i: evs[:i + 1] + [evs[i]] + evs[i + 1:])),
               ('destructor_wrong_value', mut_first(lambda e: e['e'] == 'U_Dtor' and e['a'][2] != 0, set_arg(2, lambda v: v + 7))),
               ('destructor_of_other_key', mut_first(lambda e: e['e'] == 'U_Dtor' and e['a'][2] != 0, set_arg(1, lambda v: 1 + v % 3)))])


def mut_timedout_deadline(evs):
    """move the deadline of a timedlock call that timed out 100 s into the future: the time-out is then premature"""
    for i, e in enumerate(evs):
        if e['e'] == 'U_TimedLockCall':
            for f in evs[i + 1:]:
                if f['e'] == 'U_TimedLockRet' and f['a'][0] == e['a'][0]:
                    if f['a'][2] == 110:
                        evs[i]['a'][2] += 100
                        return evs
                    break
    return None


def check_C20(ctx):
    std_check(ctx, [('MC_Sync', 'MC_Sync_timed2.cfg')], gen_timed_prog, 30, 6,
              [('early_wakeup', mut_pair(lambda a, b: a['e'] == 'Clock' and b['e'] == 'YieldBeg' and a['w'] == b['w'], lambda evs, i: evs[:i + 1] + [{'w': evs[i]['w'], 'e': 'U_NanosleepRet', 'a': [0, 0]}] + evs[i + 1:])),
               ('einval_accepted', mut_first(lambda e: e['e'] == 'U_NanosleepRet' and e['a'][1] == 22, set_arg(1, 0))),
               ('timeout_before_deadline', mut_timedout_deadline),
               ('deadline_arith', mut_first(lambda e: e['e'] == 'U_NanosleepCall' and e['a'][1] >= 0 and 0 <= e['a'][2] < 10 ** 9, set_arg(1, lambda v: v + 1)))],
              thorough_designs=[('MC_Sync', 'MC_Sync_timed.cfg')])


# ----------------------------------------------------------------------------- C15: configuration parsing, init / fini
ENV_TOK = {'N': '\n', 'T': '\t'}
IF_EVENTS = ('Reset', 'U_KeysExhausted', 'U_Request', 'InitCas', 'InitReally', 'WorkerStart', 'InitDone', 'U_NumWorkers', 'U_WorkerNum',
             'FiniBegin', 'WorkerExit', 'FiniDone')


def envparse_cases(ctx, cfg):
    """TLC enumerates every string of the configured length over the class alphabet together with the
    expected outcome of the reference semantics (EnvParse.tla)"""
    r = tlc_design('EnvParse', os.path.join(SPEC, cfg), coverage=False, heap='8g', timeout=3000)
    if not r['ok']:
        raise Infra('EnvParse enumeration failed: %s' % r['violation'])
    cases = []
    for l in r['out'].split('\n'):
        if l.startswith('<<"CASE"'):
            m = re.match(r'<<"CASE", "(.*)">>$', l.strip())
            c = json.loads(m.group(1).encode().decode('unicode_escape'))
            cases.append((''.join(ENV_TOK.get(x, x) for x in c['s']), c))
    ctx.cov['states'] += r['distinct']; ctx.cov['transitions'] += r['states']
    ctx.cov['design_runs'].append({'module': 'EnvParse', 'cfg': cfg, 'distinct_states': r['distinct'], 'strings_enumerated': len(cases),
                                   'wall_s': r['wall_s'], 'result': 'ok'})
    return cases


def check_C15(ctx):
    lib = build_lib()
    run_design(ctx, 'InitFini', 'InitFini_small.cfg')
    cases = envparse_cases(ctx, 'EnvParse_quick.cfg' if ctx.quick else 'EnvParse_thorough.cfg')
    ctx.log('EnvParse: %d strings enumerated by TLC' % len(cases))
    # --- (1) every enumerated string through the real parser / readers (unit harness including the library source)
    unit = os.path.join(BUILD, 'envparse_unit')
    rc, o = sh('gcc -O1 -w -D_GNU_SOURCE -DMYTH_WRAP=MYTH_WRAP_VANILLA -I%s/include -I%s/src %s -I%s/vrt -o %s %s/harness/envparse_unit.c -lpthread -ldl'
               % (REPO, REPO, ('-I%s/cfg' % lib) if os.path.isdir(lib + '/cfg') else '', VERIF, unit, VERIF), timeout=300)
    if rc != 0:
        raise Infra('envparse unit build failed: ' + o[-2000:])
    inp = os.path.join(ctx.work, 'envparse_in.txt')
    with open(inp, 'w') as f:
        for s_, c in cases:
            f.write(s_.encode().hex() + '\n')
    rc, out = sh([unit, inp], timeout=3000)
    res = {}
    for l in out.strip().split('\n'):
        p_ = l.split()
        if p_ and p_[0].isdigit():
            res[int(p_[0])] = p_[1:]
    nbad = 0
    for i, (s_, c) in enumerate(cases):
        r = res.get(i)
        what = None
        if r is None:
            raise Infra('envparse unit: no result for case %d' % i)
        if r[0] == 'CRASH':
            what = 'value %r of a configuration variable makes the library crash (signal %s)' % (s_, r[1])
        else:
            n = int(r[1]); lst = [int(x) for x in r[2:r.index('num')]]
            nums = [int(x) for x in r[r.index('num') + 1:]]
            exp = c['cpu']
            if n != exp['n'] or (exp['ok'] and lst != exp['list'][:40]):
                what = 'MYTH_CPU_LIST=%r parsed as %d %s, reference semantics %d %s' % (s_, n, lst[:8], exp['n'], exp['list'][:8])
            elif (nums[0] != 131072 if c['num'] == 0 else nums[0] != c['num']):
                what = 'MYTH_DEF_STKSIZE=%r gives stack size %d, reference semantics %s' % (s_, nums[0], c['num'] or 'default')
            elif (nums[1] != 4096 if c['num'] == 0 else nums[1] != c['num']):
                what = 'MYTH_DEF_GUARDSIZE=%r gives guard size %d, reference semantics %s' % (s_, nums[1], c['num'] or 'default')
            elif nums[2] != c['num']:
                what = 'MYTH_NUM_WORKERS=%r read as %d, reference semantics %d' % (s_, nums[2], c['num'])
        if what:
            nbad += 1
            if nbad <= 5:
                f_ = os.path.join(ctx.work, 'envcase_%d.txt' % i)
                open(f_, 'w').write(repr(s_) + '\n' + json.dumps(c) + '\n' + ' '.join(r) + '\n')
                ctx.violation(what, [f_])
    ctx.cov['oracle_cases_replayed_into_impl'] = len(cases)
    ctx.cov['samples'].append({'string': cases[len(cases) // 3][0], 'expected': cases[len(cases) // 3][1]})
    ctx.log('EnvParse: %d strings replayed into the real parser, %d disagreements' % (len(cases), nbad))
    # --- (2) whole-process runs: init/fini histories, and sampled environment values
    binary = build_harness(lib, 'initfini', ['initfini.c'])
    rng = random.Random(ctx.seed * 31 + 5)
    ncpu = os.cpu_count()
    tdir = os.path.join(ctx.work, 'traces'); os.makedirs(tdir, exist_ok=True)
    jobs = []
    nhist = 12 if ctx.quick else 60
    for h in range(nhist):
        gens = []
        for _ in range(rng.randint(1, 6 if ctx.quick else 30)):
            n_ = rng.choice((1, 1, 2, 3, 4, 5, 8, 16, 32, 64))
            if rng.random() < 0.35:      # process-wide attributes through the NULL-attribute interface, other settings after the worker count
                gens.append('g:%d:%s' % (n_, ''.join(rng.sample('1234', rng.randint(0, 4)))))
            else:
                gens.append('a:%d' % n_)
            if rng.random() < 0.3:
                gens[-1] += 'k'          # key exhaustion in this generation
        jobs.append((gens, {}))
    # one long history of small generations (tables that are appended to at every initialisation overflow only then)
    jobs.append((['g:%d:' % rng.choice((1, 1, 2, 3)) for _ in range(300 if ctx.quick else 1200)], {}))
    nenv = 40 if ctx.quick else 400
    interesting = [c for c in cases if c[0] and '\x00' not in c[0]]
    for h in range(nenv):
        env = {}
        s_nw, c_nw = rng.choice(interesting)
        env['MYTH_NUM_WORKERS'] = s_nw
        for var in ('MYTH_CPU_LIST', 'MYTH_DEF_STKSIZE', 'MYTH_DEF_GUARDSIZE', 'MYTH_BIND_WORKERS', 'MYTH_CHILD_FIRST'):
            if rng.random() < 0.6:
                env[var] = rng.choice(interesting)[0]
        # keep worker counts and (valid) stack sizes reasonable for a real run
        exp = c_nw['num'] if c_nw['num'] <= 64 else None
        stk = env.get('MYTH_DEF_STKSIZE')
        if exp is None or (stk is not None and 0 < next(c for s2, c in cases if s2 == stk)['num'] < 65536):
            continue
        jobs.append(([rng.choice(('e', 'i')) + ':%d' % exp], env))

    def one(t):
        k, (gens, env) = t
        out = os.path.join(tdir, 'if_%d.ndjson' % k)
        e = dict(os.environ); e.update(env)
        try:
            p_ = subprocess.run([binary, out] + gens, env=e, stdout=subprocess.PIPE, stderr=subprocess.PIPE, timeout=120)
            rc_ = p_.returncode
        except subprocess.TimeoutExpired:
            rc_ = 124
        return k, gens, env, out, rc_

    with cf.ThreadPoolExecutor(max_workers=4) as ex:
        results = list(ex.map(one, enumerate(jobs)))
    traces = []
    for k, gens, env, out, rc_ in results:
        if rc_ != 0:
            # a failure is a verdict only if a second run repeats it
            _, _, _, out, rc2 = one((k, (gens, env)))
            if rc2 == 0:
                ctx.cov.setdefault('unrepeatable_harness_failures', []).append({'rc': rc_, 'gens': gens})
                rc_ = 0
        if rc_ != 0:
            f_ = os.path.join(ctx.work, 'ifrun_%d.txt' % k)
            open(f_, 'w').write(json.dumps({'gens': gens, 'env': env, 'rc': rc_}))
            ctx.violation('init/fini run %s with environment %s: %s' % (gens, env, 'hang (timeout)' if rc_ == 124 else 'exit status %d' % rc_), [f_])
            continue
        filt = out + '.f'
        with open(filt, 'w') as f:
            for e in read_trace(out):
                if e['e'] in IF_EVENTS:
                    f.write(json.dumps(e) + '\n')
        traces.append(filt)
    count_actions(ctx, traces)
    ctx.log('C->S validating %d init/fini traces' % len(traces))
    nok, fails, states = validate_traces('InitFiniTrace', traces, ['IFOK'], os.path.join(ctx.work, 'tv'), batch=8,
                                         extra_consts={'MaxNW': 64, 'NCPU': ncpu}, bounds=False)
    ctx.cov['traces_validated_against_impl'] += nok
    for f in fails:
        ctx.violation('%s at event %d/%d %s' % (f['violation'], f['matched'] + 1, f['total'], json.dumps(f['event'])), [f['trace']])
    if traces and not fails:
        bind_selftest(ctx, traces[0], ['IFOK'], [
            ('wrong_worker_count', mut_first(ev('InitReally'), set_arg(0, lambda v: v + 1))),
            ('worker_started_twice', mut_first(ev('WorkerStart'), lambda evs, i: evs[:i + 1] + [evs[i]] + evs[i + 1:])),
            ('fini_before_workers_exit', mut_first(ev('WorkerExit'), drop_at)),
            ('rank_out_of_range', mut_first(ev('U_WorkerNum'), set_arg(0, 64)))], module='InitFiniTrace',
            extra_consts={'MaxNW': 64, 'NCPU': ncpu}, bounds=False)
    ctx.assumptions += ['strings up to the enumerated length over the class alphabet {0,1,9,",","-",":",junk,blank,newline}',
                        'init/fini events recorded in mutex order (free recording), not serialized']


# ----------------------------------------------------------------------------- C17: bulk fork-join helpers
def check_C17(ctx):
    lib = build_lib()
    cfg = 'BulkForkJoin_quick.cfg' if ctx.quick else 'BulkForkJoin_thorough.cfg'
    ctx.log('MC BulkForkJoin %s' % cfg)
    r = tlc_design('BulkForkJoin', os.path.join(SPEC, cfg), coverage=False, heap='8g', timeout=6000)
    ctx.cov['states'] += r['distinct']; ctx.cov['transitions'] += r['states']
    ctx.cov['design_runs'].append({'module': 'BulkForkJoin', 'cfg': cfg, 'distinct_states': r['distinct'], 'states_generated': r['states'],
                                   'wall_s': r['wall_s'], 'result': 'ok' if r['ok'] else r['violation']})
    if not r['ok']:
        f = os.path.join(ctx.work, 'tlc_bfj.out'); open(f, 'w').write(r['out'])
        ctx.violation('design model BulkForkJoin/%s: %s' % (cfg, r['violation']), [f])
        return
    cases = []
    for l in r['out'].split('\n'):
        if l.startswith('<<"CASE"'):
            m = re.match(r'<<"CASE", "(.*)">>$', l.strip())
            cases.append(json.loads(m.group(1).encode().decode('unicode_escape')))
    ctx.log('   %d distinct states, %d instances with their expected outcome' % (r['distinct'], len(cases)))
    inp = os.path.join(ctx.work, 'bulk_in.txt')
    with open(inp, 'w') as f:
        for c in cases:
            f.write('%s %d %d %d %d %d %d %d %d\n' % (c['kind'], c['first'], c['last'], c['step'], c['grain'], c['as'], c['rs'], c['is'], c['at']))
    inc = '-I%s/include -I%s/src -I%s/vrt -I%s/harness %s' % (REPO, REPO, VERIF, VERIF, ('-I%s/cfg' % lib) if os.path.isdir(lib + '/cfg') else '')
    bins = {}
    for name, cc, src in (('bulk', 'gcc', 'bulk.c'), ('mtbb', 'g++ -std=c++11', 'mtbb.cc')):
        out = os.path.join(BUILD, name)
        rc, o = sh('%s -O1 -g -w -DMYTH_VERIF -D_GNU_SOURCE %s -o %s %s/harness/%s %s/libmyth-v.a -lpthread -ldl -lrt' % (cc, inc, out, VERIF, src, lib), timeout=600)
        if rc != 0:
            raise Infra('%s build failed: %s' % (name, o[-2000:]))
        bins[name] = out
    nreplayed = 0

    def compare(name, nw, expect):
        nonlocal nreplayed
        rc, out = sh([bins[name], inp], timeout=3000, env={'BULK_NW': str(nw)})
        bad = []
        for l in out.strip().split('\n'):
            p_ = l.split()
            if len(p_) < 2 or not p_[0].isdigit() or p_[1] == 'SKIP':
                continue
            c = expect[int(p_[0])]
            nreplayed += 1
            if p_[1] != 'OK':
                bad.append((c, ' '.join(p_[1:])[:200]))
            elif name == 'mtbb':
                got = sorted(int(x.split(':')[0]) for x in p_[2:] if int(x.split(':')[1]) == 1)
                dup = [x for x in p_[2:] if int(x.split(':')[1]) != 1]
                if got != sorted(c['idx']) or dup:
                    bad.append((c, 'body applied to %s (expected exactly once to each of %s)' % (p_[2:], sorted(c['idx']))))
            else:
                got = [int(x) for x in p_[2:]]
                want = [1 if i in c['idx'] else 0 for i in range(len(got))]
                if got != want:
                    bad.append((c, 'function applied %s times to items 0.. (expected %s)' % (got, want)))
        return bad
    for nw in ((1, 3) if ctx.quick else (1, 2, 3, 8)):
        for name in ('bulk', 'mtbb'):
            bad = compare(name, nw, cases)
            ctx.log('S->C %s on %d workers: %d disagreements' % (name, nw, len(bad)))
            for c, what in bad[:3]:
                f_ = os.path.join(ctx.work, 'bulk_%s_%d.json' % (name, nw)); json.dump({'instance': c, 'outcome': what, 'workers': nw}, open(f_, 'w'))
                ctx.violation('%s instance %s on %d workers: %s' % (c['kind'], {k: c[k] for k in ('first', 'last', 'step', 'grain', 'as', 'rs', 'is', 'at')}, nw, what), [f_])
    # --- index ranges of up to 2^31 - 1 iterations: the chunks handed to the body, compared with BulkHuge.tla
    rh = tlc_design('BulkHuge', os.path.join(SPEC, 'BulkHuge.cfg'), coverage=False, heap='4g', timeout=1200)
    if not rh['ok']:
        raise Infra('BulkHuge: ' + str(rh['violation']) + rh['out'][-800:])
    ctx.cov['states'] += rh['distinct']; ctx.cov['transitions'] += rh['states']
    ctx.cov['design_runs'].append({'module': 'BulkHuge', 'cfg': 'BulkHuge.cfg', 'distinct_states': rh['distinct'], 'states_generated': rh['states'], 'wall_s': rh['wall_s'], 'result': 'ok'})
    huge = []
    for l in rh['out'].split('\n'):
        m = re.match(r'<<"HUGE", "(.*)">>$', l.strip())
        if m:
            huge.append(json.loads(m.group(1).encode().decode('unicode_escape')))
    hin = os.path.join(ctx.work, 'huge_in.txt')
    with open(hin, 'w') as f:
        for c in huge:
            f.write('pfh %d %d %d %d 0 0 0 0\n' % (c['first'], c['last'], c['step'], c['grain']))
    for nw in ((1, 3) if ctx.quick else (1, 2, 3, 8)):
        rc, out = sh([bins['mtbb'], hin], timeout=600, env={'BULK_NW': str(nw)})
        seen = set()
        for l in out.strip().split('\n'):
            p_ = l.split()
            if len(p_) < 2 or not p_[0].isdigit():
                continue
            c = huge[int(p_[0])]; seen.add(int(p_[0])); nreplayed += 1
            got = sorted([int(x.split(':')[0]), int(x.split(':')[1])] for x in p_[2:]) if p_[1] == 'OK' else None
            want = sorted([list(x) for x in c['chunks']])
            if got != want:
                f_ = os.path.join(ctx.work, 'huge_%d_%d.json' % (int(p_[0]), nw)); json.dump({'instance': c, 'got': got if got is not None else ' '.join(p_[1:]), 'workers': nw}, open(f_, 'w'))
                ctx.violation('parallel_for(%d, %d, %d, grain %d) on %d workers: the body received the chunks %s; the index range is tiled exactly once by %s'
                              % (c['first'], c['last'], c['step'], c['grain'], nw, str(got)[:300], str(want)[:300]), [f_])
        if len(seen) != len(huge):
            ctx.violation('parallel_for over huge ranges on %d workers: the harness died after %d of %d cases: %s' % (nw, len(seen), len(huge), out[-300:]), [hin])
    ctx.log('S->C %d huge-range parallel_for cases compared chunk by chunk' % len(huge))
    # binding self-test: a wrong expectation must be reported as a disagreement
    wrong = [dict(c) for c in cases]
    k = next(i for i, c in enumerate(wrong) if c['kind'] == 'pfor' and len(c['idx']) >= 2)
    wrong[k]['idx'] = wrong[k]['idx'][1:]
    k2 = next(i for i, c in enumerate(wrong) if c['kind'] == 'cjm' and len(c['idx']) >= 2)
    wrong[k2]['idx'] = wrong[k2]['idx'][:-1]
    if not compare('mtbb', 2, wrong) or not compare('bulk', 2, wrong):
        raise Infra('bind self-test: a corrupted expectation was not reported')
    ctx.cov['bind_selftest'].append({'corruption': 'expected index set shortened', 'rejected': True})
    ctx.cov['oracle_cases_replayed_into_impl'] = nreplayed
    ctx.cov['traces_validated_against_impl'] = nreplayed
    ctx.cov['samples'] += [cases[7], cases[len(cases) // 2]]
    ctx.assumptions += ['instances bounded: n <= 9 (17 thorough) items, small first/last/step/grain sets; outcomes compared per instance, not per schedule',
                        'the runs use the real scheduler on 1..8 workers without forced schedules']


# ----------------------------------------------------------------------------- C18 / C19: DAG Recorder
DR_SETTINGS = ('default', 'nocollapse', 'collapse3', 'uncollapse3', 'uncollapseinf', 'count2', 'count5', 'countinf', 'target1', 'target4')


def dr_setup(ctx):
    """design run of DagRec, behaviours by simulation, simulator built from the profiler sources of the tree"""
    run_design(ctx, 'DagRec', 'DagRec_quick.cfg' if ctx.quick else 'DagRec_thorough.cfg', heap='16g', timeout=7200)
    meta = os.path.join(BUILD, 'tlc', 'drsim_%d' % os.getpid()); shutil.rmtree(meta, ignore_errors=True)
    rc, out = java_tlc(['-simulate', 'num=%d' % (150 if ctx.quick else 1500), '-depth', '80', '-seed', str(ctx.seed), '-workers', '4', '-metadir', meta, '-config', 'DagRec_sim.cfg', 'DagRec.tla'],
                       heap='4g', timeout=1800)
    shutil.rmtree(meta, ignore_errors=True)
    tl = os.path.join(ctx.work, 'dagrec_sim.out'); open(tl, 'w').write(out)
    beh = os.path.join(ctx.work, 'behaviours.txt'); exp = os.path.join(ctx.work, 'expected.jsonl')
    rc, o = sh('python3 %s/tools/dr_cases.py %s %s > %s' % (VERIF, tl, beh, exp), timeout=300)
    ncases = sum(1 for _ in open(exp))
    if rc != 0 or ncases == 0:
        raise Infra('no DagRec behaviours: ' + out[-1000:])
    P = os.path.join(REPO, 'src', 'profiler')
    sim = os.path.join(BUILD, 'dr_sim')
    srcs = ' '.join(os.path.join(P, f) for f in ('dag_recorder.c', 'dag_recorder_no_inl.c', 'chronological.c', 'gen_stat.c', 'gen_dot.c', 'gen_gpl.c', 'gen_text.c',
                                                 'read_dag.c', 'options.c', 'interpolate_counters.c', 'papi_counters.c'))
    rc, o = sh('gcc -O1 -g -w -DMYTH_VERIF -DDAG_RECORDER=2 -D_GNU_SOURCE -I%s -I%s/src -I%s/include -o %s %s/harness/dr_sim.c %s -lpthread -lm' % (P, REPO, REPO, sim, VERIF, srcs), timeout=600)
    if rc != 0:
        raise Infra('dr_sim build failed: ' + o[-2000:])
    ctx.log('%d executions generated by TLC (simulation of DagRec), replayed under %d contraction settings' % (ncases, len(DR_SETTINGS)))
    wd = os.path.join(ctx.work, 'dr'); os.makedirs(wd, exist_ok=True)

    def one(setting):
        outp = os.path.join(wd, 'out_%s.txt' % setting)
        rc_, o_ = sh('%s %s %s %s > %s 2> %s.err' % (sim, beh, setting, wd, outp, outp), timeout=1800)
        return setting, rc_, outp
    with cf.ThreadPoolExecutor(max_workers=len(DR_SETTINGS)) as ex:
        runs = list(ex.map(one, DR_SETTINGS))
    ctx.cov['samples'].append({'execution': open(beh).read().split('BEGIN')[3][:600], 'expected_totals': json.loads(open(exp).readlines()[2])})
    return beh, exp, ncases, runs, wd


def check_C18(ctx):
    beh, exp, ncases, runs, wd = dr_setup(ctx)
    total = 0
    for setting, rc_, outp in runs:
        rc, o = sh('python3 %s/tools/dr_compare.py %s %s' % (VERIF, exp, outp), timeout=300)
        r = json.loads(o.strip().split('\n')[-1])
        total += r['compared']
        if rc_ != 0 or r['compared'] != ncases:
            ctx.violation('DAG Recorder died under contraction setting %s after %d of %d executions: %s' % (setting, r['compared'], ncases, open(outp + '.err').read()[-300:]), [beh, outp])
        for i, diffs in r['bad'][:3]:
            ctx.violation('contraction setting %s, execution %d: %s' % (setting, i, '; '.join(diffs)), [beh, outp, exp])
    ctx.cov['traces_validated_against_impl'] = total
    ctx.cov['behaviours_replayed_into_impl'] = total
    ctx.log('S->C %d (execution, setting) pairs compared with the specification totals' % total)
    # binding self-test: a wrong expectation must be noticed
    wrong = os.path.join(ctx.work, 'expected_wrong.jsonl')
    lines = [json.loads(l) for l in open(exp)]
    lines[0]['work'] += 1; lines[1]['e_other_cont'] += 1
    open(wrong, 'w').write('\n'.join(json.dumps(l) for l in lines) + '\n')
    rc, o = sh('python3 %s/tools/dr_compare.py %s %s' % (VERIF, wrong, runs[0][2]), timeout=300)
    if json.loads(o.strip().split('\n')[-1])['nbad'] < 2:
        raise Infra('bind self-test: corrupted expected totals were not noticed')
    ctx.cov['bind_selftest'].append({'corruption': 'expected work / other-cont edge count changed', 'rejected': True})
    ctx.assumptions += ['executions with <= 4 tasks, <= 3 interval-ending actions per task, 3 workers (simulation) and the exhaustive design run of DagRec within its bounds',
                        'the recorder is driven by a single OS thread through its public entry points with explicit worker ids and a virtual clock']


def check_C19(ctx):
    beh, exp, ncases, runs, wd = dr_setup(ctx)
    total = 0
    jsons = []
    for setting, rc_, outp in runs:
        n = 0
        for l in open(outp):
            p_ = l.split()
            if not p_ or not p_[0].isdigit():
                continue
            n += 1
            kv = dict(x.split('=', 1) for x in p_[1:])
            for key, what in (('roundtrip', 'dump / read round trip'), ('chrono', 'chronological replay of the dumped DAG'), ('shrink', 'conversion with shrinking'), ('strings', 'source positions / string table of the dumped and of the converted DAG')):
                if kv.get(key) != 'ok' and len(ctx.violations) < 6:
                    ctx.violation('%s fails under setting %s for execution %s: %s' % (what, setting, p_[0], kv.get(key)), [beh, outp])
        if rc_ != 0 or n != ncases:
            ctx.violation('DAG Recorder died under contraction setting %s after %d of %d executions' % (setting, n, ncases), [beh, outp])
        total += n
        jsons.append(os.path.join(wd, 'dr_%s.json' % setting))
    # TLC evaluates the well-formedness predicates on every dumped-and-re-read DAG and on its shrunk conversion
    def wf(path):
        meta = os.path.join(BUILD, 'tlc', 'pidag_%d_%s' % (os.getpid(), os.path.basename(path))); shutil.rmtree(meta, ignore_errors=True)
        rc, out = java_tlc(['-workers', '1', '-metadir', meta, '-config', 'PiDag.cfg', 'PiDag.tla'], heap='3g', timeout=1800, env={'DAGS': path})
        shutil.rmtree(meta, ignore_errors=True)
        m = re.search(r'(\d+) states generated', out)
        return path, ('No error has been found' in out), int(m.group(1)) if m else 0, out
    with cf.ThreadPoolExecutor(max_workers=NCPU) as ex:
        res = list(ex.map(wf, jsons))
    ndags = 0
    for path, ok, n, out in res:
        ndags += n
        if not ok:
            f = path + '.tlc'; open(f, 'w').write(out)
            m = re.search(r'Error: (.*)', out)
            ctx.violation('a dumped DAG is not well formed (%s): %s' % (os.path.basename(path), m.group(1) if m else 'rejected'), [path, f])
    ctx.cov['states'] += ndags; ctx.cov['transitions'] += ndags
    ctx.cov['traces_validated_against_impl'] = ndags
    ctx.cov['dags_checked_by_tlc'] = ndags
    ctx.log('%d dumped / converted DAGs checked by TLC against PiDag.tla; %d round trips' % (ndags, total))
    # binding self-test: corrupt one exported DAG in two ways; TLC must reject both
    src = [json.loads(l) for l in open(jsons[1])]
    big = next(d for d in src if d['m'] >= 3)
    for name, fn in (('edge_endpoint_outside', lambda d: d['edges'][1].__setitem__('v', d['n'] + 3)),
                     ('edges_not_grouped_by_source', lambda d: d['edges'].reverse())):
        d2 = json.loads(json.dumps(big)); fn(d2)
        p_ = os.path.join(ctx.work, 'bad_%s.json' % name); open(p_, 'w').write(json.dumps(d2) + '\n')
        if wf(p_)[1]:
            raise Infra('bind self-test: corrupted DAG (%s) accepted by PiDag.tla' % name)
        ctx.cov['bind_selftest'].append({'corruption': name, 'rejected': True})
    ctx.assumptions += ['DAGs of the enumerated executions only (<= 4 tasks); string table compared by size only']


def check_C12(ctx):
    std_check(ctx, [('MC_Core', 'MC_Core_small.cfg')],
              lambda rng: gen_core_prog(rng, maxb=10, flagset=(0, F_STACK, F_STACK, F_PF | F_STACK, F_ATTR, F_DETACH | F_STACK, F_PF)),
              30, 6,
              [('stackfree_before_switch', mut_pair(lambda a, b: a['e'] == 'CbEnter' and a['a'][0] in (2, 3) and b['e'] == 'StackFree' and a['w'] == b['w'], swap_with_next)),
               ('stack_freed_twice', mut_first(ev('StackFree'), lambda evs, i: evs[:i + 1] + [evs[i]] + evs[i + 1:])),
               ('overlapping_stack', mut_first(lambda e: e['e'] == 'StackAlloc' and e['a'][1] > 1, lambda evs, i: set_arg(2, 1)(set_arg(3, 10 ** 6)(evs, i), i))),
               ('descfree_before_reap', mut_pair(lambda a, b: a['e'] == 'JoinReap' and b['e'] == 'DescFree' and a['w'] == b['w'], swap_with_next))],
              cov=('MC_Core', 'MC_Core_cov.cfg', CORE_ACTIONS), thorough_designs=[('MC_Core', 'MC_Core_big.cfg')])


def check_C13(ctx):
    def gen(rng):
        if rng.random() < 0.3:
            # detach races with the end of the target: short-lived children, each detached (some try-joined) right after
            # its creation or a few yields later, so that the request meets the finishing sequence at every stage
            n = rng.randint(3, 9)
            main = []; bodies = []
            for c in range(1, n + 1):
                main.append((OP['CR'], c, rng.choice((0, 0, F_PF)), 0))
                main += [(OP['YD'], rng.choice((0, 1, 2, 3, 4)), 0, 0)] * rng.randint(0, 2)
                main.append((OP['DT'], c, 0, 0) if rng.random() < 0.8 else (OP['TJ'], c, 0, 0))
                bodies.append([(OP['YD'], rng.choice((0, 2)), 0, 0)] * rng.randint(0, 2))
            return [main] + bodies
        return gen_core_prog(rng, maxb=10, flagset=(0, 0, F_DETACH, F_PF, F_DETACH | F_PF, F_NULLID | F_DETACH),
                             reap=('JN', 'TJ', 'TJ', 'DT', 'DT', 'TJN'))
    std_check(ctx, [('MC_Core', 'MC_Core_small.cfg'), ('MC_Core', 'MC_Core_reap.cfg')], gen,
              30, 6,
              [('reaped_twice', mut_first(ev('DescFree'), lambda evs, i: evs[:i + 1] + [evs[i]] + evs[i + 1:])),
               ('tryjoin_busy_although_finished', mut_first(lambda e: e['e'] == 'TryJoinChk' and e['a'][2] == 1, set_arg(2, 0))),
               ('fresh_although_freelist', mut_first(lambda e: e['e'] == 'DescAlloc' and e['a'][3] == 0, set_arg(3, 1))),
               ('detached_not_freed', mut_first(lambda e: e['e'] == 'FinDet' and e['a'][1] == 1, set_arg(1, 0)))],
              cov=('MC_Core', 'MC_Core_cov.cfg', CORE_ACTIONS), thorough_designs=[('MC_Core', 'MC_Core_big.cfg')])


def check_C14(ctx):
    calibrate(ctx, 'MC_Sync', 'MC_Sync_once_mut.cfg', 'a once CAS that finds "completed" counts as won')
    std_check(ctx, [('MC_Sync', 'MC_Sync_once.cfg')], gen_once_prog, 30, 6,
              [('init_twice', mut_first(ev('U_OnceBody'), lambda evs, i: evs[:i + 1] + [evs[i]] + evs[i + 1:])),
               ('return_before_done', mut_first(lambda e: e['e'] == 'U_OnceBodyEnd', drop_at)),
               ('cas_both_win', mut_first(lambda e: e['e'] == 'OnCas' and e['a'][1] == 0, set_arg(1, 1)))],
              thorough_designs=[('MC_Sync', 'MC_Sync_once3.cfg')])


# ----------------------------------------------------------------------------- C03: context switch
PROBE_SKIP = ('EX', 'TESTCANCEL', 'PROBE', 'END', 'KCREATE', 'KDELETE', 'CANCEL', 'BUSY', 'SETV')


def with_probes(prog, rng, p=0.5):
    """insert a PROBE before operations that may suspend the thread (never before one that does not return)"""
    skip = set(OP[x] for x in PROBE_SKIP)
    out = []
    for body in prog['bodies']:
        nb = []
        for o in body:
            if o[0] not in skip and rng.random() < p:
                nb.append((OP['PROBE'], rng.randrange(1, 1000), 0, 0))
            nb.append(o)
        out.append(nb)
    return {'init': prog['init'], 'bodies': out}


def gen_probe_prog(rng):
    g = rng.choice((lambda r: {'init': [], 'bodies': gen_core_prog(r, maxb=8, flagset=(0, 0, F_PF, F_PF, F_STACK, F_PF | F_STACK, F_DETACH), reap=('JN', 'JN', 'TJ', 'DT'))},
                    lambda r: {'init': [], 'bodies': gen_core_prog(r, maxb=8, flagset=(0, F_PF), reap=('JN',))},
                    gen_queue_prog, gen_mutex_prog, gen_cond_prog, gen_barrier_prog, gen_uncond_prog, gen_felock_prog, gen_jc_prog, gen_timed_prog))
    prog = g(rng)
    if isinstance(prog, list):
        prog = {'init': [], 'bodies': prog}
    return with_probes(prog, rng)


def ctx_model(ctx, wd, tag, mutate=None, hdrdir=None, cfgs=(), consts=None):
    """extract the instruction lists (optionally from a mutated header / with a model-level mutation) into a private
    directory next to a copy of CtxSwitch.tla and run the given configurations; returns list of TLC results"""
    lib = os.path.join(BUILD, 'lib')
    d = os.path.join(wd, 'ctx_' + tag); shutil.rmtree(d, ignore_errors=True); os.makedirs(d)
    shutil.copy(os.path.join(SPEC, 'CtxSwitch.tla'), d)
    cmd = ['python3', os.path.join(VERIF, 'tools', 'extract_asm.py'), REPO, (lib + '/cfg') if os.path.isdir(lib + '/cfg') else '', os.path.join(d, 'CtxAsm.tla')]
    if hdrdir:
        cmd += ['--hdr', hdrdir + '/src']
    if mutate:
        cmd += ['--mutate', mutate]
    rc, o = sh(cmd, timeout=120)
    if rc != 0:
        raise Infra('extraction of the context-switch instruction lists failed: ' + o[-1500:])
    unknown = [l for l in o.split('\n') if l.startswith('UNKNOWN')]
    res = []
    for base, nsw in cfgs:
        t = open(os.path.join(SPEC, base)).read()
        t = re.sub(r'MaxSwitches = \d+', 'MaxSwitches = %d' % nsw, t)
        for k_, v_ in (consts or {}).items():
            t = re.sub(r'%s = \d+' % k_, '%s = %d' % (k_, v_), t)
        open(os.path.join(d, base), 'w').write(t)
        r = tlc_design('CtxSwitch', os.path.join(d, base), coverage=False, heap='8g', timeout=7200, cwd=d)
        r['nsw'] = nsw
        res.append(r)
    return res, unknown, d, o


def check_C03(ctx):
    lib = build_lib()
    binary = build_harness(lib, 'mythprog', ['mythprog.c'])
    wd = ctx.work
    # --- (1) initial stack pointers made by the real myth_make_context_* for every residue of the stack top
    unit = os.path.join(BUILD, 'ctx_unit')
    inc = '-I%s/include -I%s/src %s' % (REPO, REPO, ('-I%s/cfg' % lib) if os.path.isdir(lib + '/cfg') else '')
    rc, o = sh('gcc -O1 -w -D_GNU_SOURCE -DMYTH_WRAP=MYTH_WRAP_VANILLA %s -o %s %s/harness/ctx_unit.c && %s' % (inc, unit, VERIF, unit), timeout=120)
    if rc != 0:
        raise Infra('ctx_unit failed: ' + o[-1500:])
    uo = os.path.join(wd, 'ctx_unit.out'); open(uo, 'w').write(o)
    cfp, pfp = set(), set()
    for l in o.strip().split('\n'):
        kv = dict(x.split('=') for x in l.split())
        r_ = int(kv['r'])
        if int(kv['cf_mod16']) not in (0, 8) or int(kv['pf_mod16']) not in (0, 8):
            ctx.violation('initial stack pointer of a new thread is not 8-byte aligned (stack top residue %d): %s' % (r_, l), [uo]); continue
        if int(kv['cf_below']) < 0 or int(kv['pf_below']) < 8 or int(kv['cf_below']) > 64 or int(kv['pf_below']) > 64:
            ctx.violation('initial stack pointer of a new thread lies outside (or far below the top of) its stack (stack top residue %d): %s' % (r_, l), [uo])
        if kv['pf_entry_at_sp'] != '1':
            ctx.violation('the entry address of a parent-first thread is not stored where its initial stack pointer points (stack top residue %d)' % r_, [uo])
        cfp.add(int(kv['cf_mod16']) // 8); pfp.add(int(kv['pf_mod16']) // 8)
    ctx.cov['initial_sp_parities'] = {'make_context_empty': sorted(cfp), 'make_context_voidcall': sorted(pfp)}
    # --- (2) the abstract machine over the extracted instruction lists
    cfgs = [('MC_Ctx1.cfg', 4), ('MC_Ctx2.cfg', 3)] if ctx.quick else [('MC_Ctx1.cfg', 6), ('MC_Ctx2.cfg', 4)]
    for cf in sorted(cfp) or [0]:
        for pf in sorted(pfp) or [0]:
            res, unknown, d, eo = ctx_model(ctx, wd, 'real_%d%d' % (cf, pf), cfgs=cfgs, consts={'InitCFpar': cf, 'InitPFpar': pf})
            if unknown:
                raise Infra('the context-switch code contains instructions the abstract machine does not model: %s' % unknown)
            ctx.log('extracted ' + eo.strip().split('\n')[-1])
            for r in res:
                ctx.cov['states'] += r['distinct']; ctx.cov['transitions'] += r['states']
                ctx.cov['design_runs'].append({'module': 'CtxSwitch', 'cfg': '%s MaxSwitches=%d InitCFpar=%d InitPFpar=%d' % (r['cfg'], r['nsw'], cf, pf), 'distinct_states': r['distinct'],
                                               'states_generated': r['states'], 'depth': r['depth'], 'wall_s': r['wall_s'], 'result': 'ok' if r['ok'] else r['violation']})
                ctx.log('MC CtxSwitch %s (MaxSwitches %d): %d distinct states, %.0fs, %s' % (r['cfg'], r['nsw'], r['distinct'], r['wall_s'], 'ok' if r['ok'] else 'VIOLATED'))
                if not r['ok']:
                    f = os.path.join(wd, 'tlc_ctx_%s.out' % r['cfg']); open(f, 'w').write(r['out'])
                    m = re.search(r'bad = "([^"]*)"', r['out'][max(r['out'].rfind('bad = '), 0):])
                    ctx.violation('abstract machine over the extracted context-switch code: %s (%s)' % (m.group(1) if m else r['violation'], r['cfg']), [f, os.path.join(d, 'CtxAsm.tla')])
    ctx.cov['samples'].append({'extracted_module': open(os.path.join(d, 'CtxAsm.tla')).read()[:3000]})
    # --- (3) calibration: model-level mutants of the extracted lists must be caught by the same configurations
    muts = ['drop_push_r12', 'redzone_64'] if ctx.quick else ['drop_push_r12', 'redzone_64', 'drop_pad', 'call_before_save', 'r8_not_clobbered', 'save_into_to']
    for mname in muts:
        res, _, _, _ = ctx_model(ctx, wd, 'mut_' + mname, mutate=mname, cfgs=[('MC_Ctx1.cfg', 4)])
        if res[0]['ok']:
            raise Infra('calibration: model mutant %s is not detected by MC_Ctx1' % mname)
        ctx.cov['design_runs'].append({'module': 'CtxSwitch', 'cfg': 'MC_Ctx1.cfg, mutant ' + mname, 'result': 'violated (expected)'})
    # --- (4) binding of the extraction to the source: a mutated copy of the header must yield a model that fails
    hd = os.path.join(wd, 'hdr'); shutil.rmtree(hd, ignore_errors=True); os.makedirs(hd + '/src')
    src = open(os.path.join(REPO, 'src', 'myth_context_func.h')).read()
    mut = src.replace('\t"push %%r14\\n"\\\n', '', 1).replace('\t"pop %%r14\\n"\\\n', '', 1)
    if mut == src:
        raise Infra('bind self-test: push/pop %r14 not found in myth_context_func.h')
    open(hd + '/src/myth_context_func.h', 'w').write(mut)
    res, _, _, _ = ctx_model(ctx, wd, 'srcmut', hdrdir=hd, cfgs=[('MC_Ctx1.cfg', 4)])
    if res[0]['ok']:
        raise Infra('bind self-test: removing push/pop %r14 from a copy of the header is not noticed')
    ctx.cov['bind_selftest'].append({'corruption': 'push/pop %r14 removed from a copy of myth_context_func.h', 'rejected': True})
    # --- (5) C->S: probes and alignment events in whole-library runs
    nws = NWS_QUICK if ctx.quick else NWS_THOROUGH
    progs, runs = core_runs(ctx, 40 if ctx.quick else 400, 6, gen_probe_prog, nws)
    res, fails = traced_check(ctx, binary, progs, runs, CORE_INV)
    nprobe = ctx.cov['spec_actions_matched'].get('U_Probe', 0)
    if nprobe < 50:
        raise Infra('vacuity: only %d probes executed' % nprobe)
    ctx.cov['probes_compared'] = nprobe
    binds = [('probe_register_lost', mut_first(lambda e: e['e'] == 'U_Probe', set_arg(2, 4))),
             ('probe_stack_changed', mut_first(lambda e: e['e'] == 'U_Probe', set_arg(3, 2))),
             ('callback_misaligned', mut_first(lambda e: e['e'] == 'CbEnter', set_arg(1, 8))),
             ('entry_misaligned', mut_first(lambda e: e['e'] == 'ThreadEntry', set_arg(0, 8)))]
    g = best_bind_trace(res, fails, binds)
    if g:
        bind_selftest(ctx, g, CORE_INV, binds)
    ctx.assumptions += ['instruction lists are those of the asm statements as compiled by gcc -O2 in a stub that includes the real header; vector / x87 state is not modelled',
                        'the abstract machine is bounded (3 threads, 1-2 workers, 3-6 switches); the probes sample programs and schedules']


# ----------------------------------------------------------------------------- C16: pthread programs
POP = dict(CREATE=1, JOIN=2, DETACH=3, RET=4, EXIT=5, LOCK=6, TLOCK=7, UNLOCK=8, SPIN=9, SPUN=10, ADD=11, READ=12, WAITV=13,
           SIGV=14, BARRIER=15, ONCE=16, SETSPEC=17, GETSPEC=18, SELF=19, YIELD=20, SLEEP=21)
PNAME = {v: k for k, v in POP.items()}


def gen_pth_prog(rng):
    """a small determinate-by-construction pthread program: thread 1 is main, children 2..NT"""
    nch = rng.randint(1, 3)
    NT = nch + 1
    th = {t: [] for t in range(1, NT + 1)}
    barn = [0, 0, 0, 0]; keydt = [rng.choice((0, 1)) for _ in range(4)]; mkind = [rng.choice((0, 1)) for _ in range(4)]
    kind = rng.choice(('counter', 'counter', 'handoff', 'barrier', 'keys', 'keys', 'once', 'detach', 'static', 'staticsync')) if rng.random() > 0.04 else 'racy'
    ends = lambda t: rng.choice(([], [('RET', 2000 + t, 0, 0)], [('EXIT', 3000 + t, 0, 0)]))

    def locked_add(m, v, d, style):
        if style == 'SPIN':
            return [('SPIN', 4 + m, 0, 0), ('ADD', v, d, 0), ('SPUN', 4 + m, 0, 0)]
        return [(style, m, 0, 0), ('ADD', v, d, 0), ('UNLOCK', m, 0, 0)]
    main = th[1]
    attr = lambda: rng.choice((0, 0, 1, 3, 4))
    if kind == 'staticsync':
        # first use of statically initialised mutexes by all threads at once: a barrier lines the threads up in front of
        # each mutex (these programs are run repeatedly: the window of the one-time conversion is a few instructions)
        nch = 3; NT = 4; th = {t: [] for t in range(1, NT + 1)}
        mkind = [1, 1, 1, 1]; barn[0] = NT
        body = []
        for m_ in range(rng.randint(2, 4)):
            body += [('BARRIER', 0, 0, 0), ('LOCK', m_, 0, 0), ('ADD', m_, 1 + m_, 0), ('UNLOCK', m_, 0, 0)]
        for t in range(2, NT + 1):
            th[1].append(('CREATE', t, 0, 0)); th[t] = list(body)
        th[1] += body + [('JOIN', t, 0, 0) for t in range(2, NT + 1)] + [('READ', 0, 0, 0), ('READ', 1, 0, 0)]
        return {'threads': [th[t] for t in range(1, NT + 1)], 'barn': barn, 'keydt': [0, 0, 0, 0], 'mkind': mkind, 'kind': kind}
    if kind == 'racy':
        # NOT determinate on purpose (a read that races with the additions): TLC must find several results and the
        # program must be left out of the comparison
        for t in range(2, NT + 1):
            main.append(('CREATE', t, 0, 0)); th[t] = locked_add(0, 0, t, 'LOCK')
        main += [('LOCK', 0, 0, 0), ('READ', 0, 0, 0), ('UNLOCK', 0, 0, 0)] + [('JOIN', t, 0, 0) for t in range(2, NT + 1)]
    elif kind in ('counter', 'static', 'once'):
        m = rng.randrange(2); v = rng.randrange(2)
        if kind == 'static':
            mkind[m] = 1
        # one lock per variable: either the mutex (taken with lock or with a trylock loop) or the spin lock, never a mix
        style = 'SPIN' if (kind != 'static' and rng.random() < 0.25) else 'LOCK'
        for t in range(2, NT + 1):
            b = []
            if kind == 'once':
                b.append(('ONCE', 0, 0, 0))
            for _ in range(rng.randint(1, 2)):
                b += locked_add(m, v, rng.randint(1, 5), style if style == 'SPIN' else rng.choice(('LOCK', 'TLOCK') if kind != 'static' else ('LOCK',)))
                if rng.random() < 0.3:
                    b.append(rng.choice((('YIELD', 0, 0, 0), ('SELF', 0, 0, 0), ('SLEEP', rng.choice((0, 1, 200, 1500)), 0, 0))))
            th[t] = b + ends(t)
            main.append(('CREATE', t, attr(), 0))
        if kind == 'once':
            main.append(('ONCE', 0, 0, 0))
        if rng.random() < 0.5:
            main += locked_add(m, v, 7, style)
        if rng.random() < 0.03:
            main += locked_add(m, v, 1, 'SPIN' if style == 'LOCK' else 'LOCK')      # deliberately the wrong lock: TLC must reject the program
        order = list(range(2, NT + 1)); rng.shuffle(order)
        main += [('JOIN', t, 0, 0) for t in order] + [('READ', v, 0, 0)]
    elif kind == 'handoff':
        m = rng.randrange(2); mkind[m] = rng.choice((0, 1))
        for t in range(2, NT + 1):
            main.append(('CREATE', t, attr(), 0))
            th[t] = [('WAITV', m, 0, t - 1), ('ADD', 1, t, 0), ('READ', 1, 0, 0), ('SIGV', m, 0, t)] + ends(t)
        if rng.random() < 0.5:
            main.append(('YIELD', 0, 0, 0))
        main += [('SIGV', m, 0, 1), ('WAITV', m, 0, NT), ('READ', 1, 0, 0)]
        main += [('JOIN', t, 0, 0) for t in range(2, NT + 1)]
    elif kind == 'barrier':
        withmain = rng.random() < 0.5
        n = nch + (1 if withmain else 0)
        if n < 2:
            withmain = True; n = nch + 1
        barn[0] = n
        rounds = rng.randint(1, 2)
        body = []
        for r in range(rounds):
            body += [('LOCK', 0, 0, 0), ('ADD', 0, 1 + r, 0), ('UNLOCK', 0, 0, 0), ('BARRIER', 0, 0, 0), ('READ', 0, 0, 0)]
            if r + 1 < rounds:
                body += [('BARRIER', 0, 0, 0)]
        for t in range(2, NT + 1):
            main.append(('CREATE', t, attr(), 0)); th[t] = list(body) + ends(t)
        if withmain:
            main += body
        main += [('JOIN', t, 0, 0) for t in range(2, NT + 1)]
    elif kind == 'keys':
        # in half of the programs every key has a destructor and every thread ends holding values: all ending threads
        # go through destructors, which take a common lock and yield inside (harness/pthprog.c)
        dtheavy = rng.random() < 0.5
        if dtheavy:
            keydt = [1, 1, 1, 1]
        for t in range(2, NT + 1):
            main.append(('CREATE', t, attr(), 0))
            b = []
            for _ in range(rng.randint(1, 3)):
                k = rng.randrange(4)
                b += [('SETSPEC', k, rng.choice((0, 100 * t + k + 1)), 0)]
                if rng.random() < 0.5:
                    b.append(('YIELD', 0, 0, 0))
                b += [('GETSPEC', rng.randrange(4), 0, 0)]
            if dtheavy:
                b += [('SETSPEC', k, 100 * t + 2 * k + rng.choice((1, 2, 2)), 0) for k in rng.sample(range(4), rng.randint(2, 4))]
            th[t] = b + ends(t)
        main += [('SETSPEC', 0, 77, 0), ('GETSPEC', 0, 0, 0)]
        main += [('JOIN', t, 0, 0) for t in range(2, NT + 1)]
        main += [('GETSPEC', 0, 0, 0)]
    else:   # detach
        keydt = [0, 0, 0, 0]
        for t in range(2, NT + 1):
            how = rng.choice(('attr', 'main', 'self', 'join'))
            main.append(('CREATE', t, 2 if how == 'attr' else attr(), 0))
            b = locked_add(0, 0, t, 'LOCK')
            if how == 'self':
                b = [('DETACH', t, 0, 0)] + b
            if how == 'main':
                main.append(('DETACH', t, 0, 0))
            th[t] = b + (ends(t) if how == 'join' else rng.choice(([], [('EXIT', 5, 0, 0)])))
            if how == 'join':
                main.append(('JOIN', t, 0, 0))
    # the keys under test get indices 0..3, or larger ones (other leaves / branches of the per-thread key tree) when
    # keys without destructor are created first
    nfill = rng.choice((0, 0, 13, 14, 16, 29, 61, 250)) if kind == 'keys' else 0
    return {'threads': [th[t] for t in range(1, NT + 1)], 'barn': barn, 'keydt': keydt, 'mkind': mkind, 'kind': kind, 'nfill': nfill}


def write_pth_prog(path, prog):
    with open(path, 'w') as f:
        f.write('%d\n%s\n%s\n%s\n%d\n' % (len(prog['threads']), ' '.join(map(str, prog['barn'])), ' '.join(map(str, prog['keydt'])), ' '.join(map(str, prog['mkind'])), prog.get('nfill', 0)))
        for b in prog['threads']:
            f.write('%d\n' % len(b))
            for o in b:
                f.write('%d %d %d %d\n' % (POP[o[0]], o[1], o[2], o[3]))


def write_pth_tla(path, progs):
    def T(o):
        return '[op |-> "%s", a |-> %d, b |-> %d, c |-> %d]' % o
    with open(path, 'w') as f:
        f.write('------------------------------ MODULE PthProgs ------------------------------\n(* GENERATED: the programs of this run *)\nProgs == <<\n')
        items = []
        for p_ in progs:
            ths = ',\n      '.join('<<' + ', '.join(T(o) for o in b) + '>>' for b in p_['threads'])
            items.append('  [threads |-> <<\n      %s >>,\n   barn |-> <<%s>>, keydt |-> <<%s>>]' % (ths, ', '.join(map(str, p_['barn'])), ', '.join(map(str, p_['keydt']))))
        f.write(',\n'.join(items) + ' >>\n=============================================================================\n')


def norm_result(r):
    v = r['vars']
    if isinstance(v, dict):
        v = [v[k] for k in sorted(v, key=int)]
    return {'vars': list(v), 'outs': [list(x) for x in r['outs']], 'glob': {k: r['glob'][k] for k in ('dtsum', 'dtcalls', 'oncecnt', 'serials')}}


def check_C16(ctx):
    wd = ctx.work
    n = 300 if ctx.quick else 3000
    rng = random.Random(ctx.seed * 104729 + 7)
    progs = [gen_pth_prog(rng) for _ in range(n)]
    # --- (1) TLC: every interleaving of every program; determinacy and the expected result
    d = os.path.join(wd, 'pth'); shutil.rmtree(d, ignore_errors=True); os.makedirs(d)
    shutil.copy(os.path.join(SPEC, 'PthreadAbs.tla'), d)
    write_pth_tla(os.path.join(d, 'PthProgs.tla'), progs)
    open(os.path.join(d, 'PthreadAbs.cfg'), 'w').write('SPECIFICATION Spec\nINVARIANT EmitResult\nINVARIANT EmitStuck\nINVARIANT WellFormedEnd\nCHECK_DEADLOCK FALSE\n')
    r = tlc_design('PthreadAbs', os.path.join(d, 'PthreadAbs.cfg'), coverage=False, heap='8g', timeout=7200, cwd=d)
    if not r['ok']:
        raise Infra('PthreadAbs: ' + str(r['violation']) + r['out'][-1500:])
    ctx.cov['states'] += r['distinct']; ctx.cov['transitions'] += r['states']
    ctx.cov['design_runs'].append({'module': 'PthreadAbs', 'cfg': '%d generated programs' % n, 'distinct_states': r['distinct'], 'states_generated': r['states'], 'wall_s': r['wall_s'], 'result': 'ok'})
    results = {}; stuck = set()
    for l in r['out'].split('\n'):
        m = re.match(r'<<"RESULT", (\d+), "(.*)">>$', l)
        if m:
            js = json.loads(m.group(2).replace('\\"', '"'))
            results.setdefault(int(m.group(1)), []).append(json.dumps(norm_result(js), sort_keys=True))
        m = re.match(r'<<"STUCK", (\d+)>>', l)
        if m:
            stuck.add(int(m.group(1)))
    expected = {}
    for i in range(1, n + 1):
        rs = set(results.get(i, []))
        if i not in stuck and len(rs) == 1:
            expected[i] = json.loads(rs.pop())
    ctx.log('MC PthreadAbs: %d programs, %d distinct states; %d determinate and deadlock-free (%d with several results, %d with a deadlock)'
            % (n, r['distinct'], len(expected), sum(1 for i in range(1, n + 1) if len(set(results.get(i, []))) > 1), len(stuck)))
    if len(expected) < n * 0.8:
        raise Infra('program generator produces too many programs that are not determinate')
    racy = [i for i in range(1, n + 1) if progs[i - 1]['kind'] == 'racy']
    if any(i in expected for i in racy):
        raise Infra('calibration: a deliberately racy program was certified determinate')
    ctx.cov['racy_programs_rejected_by_TLC'] = len(racy)
    ctx.cov['programs'] = len(expected)
    kinds = {}
    for i in expected:
        kinds[progs[i - 1]['kind']] = kinds.get(progs[i - 1]['kind'], 0) + 1
    ctx.cov['program_kinds'] = kinds
    # --- (2) the three builds of the interpreter
    wrap = os.path.join(BUILD, 'wrap')
    rc, o = sh('%s/tools/build_wrap.sh %s' % (VERIF, wrap), timeout=600, env={'REPO': REPO})
    if rc != 0:
        raise Infra('build of the wrapping library variants failed: ' + o[-2000:])
    src = os.path.join(VERIF, 'harness', 'pthprog.c')
    b_sys, b_ld = os.path.join(BUILD, 'pthprog_sys'), os.path.join(BUILD, 'pthprog_ld')
    rc, o = sh('gcc -O1 -g -w -o %s %s -lpthread && gcc -O1 -g -w -o %s %s @%s/src/myth-ld.opts %s/libmyth-ld.a -lpthread -ldl' % (b_sys, src, b_ld, src, REPO, wrap), timeout=300)
    if rc != 0:
        raise Infra('pthprog build failed: ' + o[-2000:])
    pdir = os.path.join(wd, 'pprogs'); os.makedirs(pdir, exist_ok=True)
    nws = (1, 2, 4) if ctx.quick else (1, 2, 3, 4, 8, 16)
    jobs = []
    for i in sorted(expected):
        pp = os.path.join(pdir, 'p%d.prog' % i); write_pth_prog(pp, progs[i - 1])
        jobs.append((i, pp, 'system', b_sys, {}))
        reps = (10 if ctx.quick else 40) if progs[i - 1]['kind'] == 'staticsync' else 1
        for nw in nws:
            for _rep in range(reps if nw > 1 else 1):
                jobs.append((i, pp, 'ld nw=%d' % nw, b_ld, {'MYTH_NUM_WORKERS': str(nw)}))
                jobs.append((i, pp, 'dl nw=%d' % nw, b_sys, {'MYTH_NUM_WORKERS': str(nw), 'LD_PRELOAD': os.path.join(wrap, 'libmyth-dl.so')}))
        jobs.append((i, pp, 'ld MYTH_WRAP_PTHREAD=0', b_ld, {'MYTH_WRAP_PTHREAD': '0'}))

    def one(j):
        i, pp, how, binary, env = j
        rc, o = sh('timeout 30 %s %s' % (binary, pp), timeout=60, env=env)
        return (i, pp, how, binary, env, rc, o)
    with cf.ThreadPoolExecutor(max_workers=NCPU) as ex:
        outs = list(ex.map(one, jobs))
    nbad = 0
    for i, pp, how, binary, env, rc, o in outs:
        line = [l for l in o.split('\n') if l.startswith('{')]
        got = None
        if rc == 0 and line:
            try:
                got = norm_result(json.loads(line[-1]))
            except Exception:
                got = None
        if got != expected[i]:
            # a difference counts only if a second run repeats it (or fails as well)
            i2, _, _, _, _, rc2, o2 = one((i, pp, how, binary, env))
            line2 = [l for l in o2.split('\n') if l.startswith('{')]
            got2 = norm_result(json.loads(line2[-1])) if rc2 == 0 and line2 else None
            if got2 == expected[i]:
                ctx.cov.setdefault('unrepeatable_differences', []).append({'program': i, 'how': how, 'rc': rc})
                if how == 'system':
                    continue
            nbad += 1
            if nbad <= 8:
                what = ('exit status %d%s' % (rc, ' (time-out: hang)' if rc == 124 else '')) if got is None else 'result %s' % json.dumps(got, sort_keys=True)
                ctx.violation('pthread program %d (%s) run with %s: %s; the reference semantics (every interleaving) and the system library give %s%s'
                              % (i, progs[i - 1]['kind'], how, what, json.dumps(expected[i], sort_keys=True), '' if got2 != expected[i] else ' [second run agreed]'),
                              [pp, os.path.join(d, 'PthProgs.tla')], {'program': progs[i - 1], 'how': how, 'env': env, 'output': o[-600:]})
    ctx.cov['traces_validated_against_impl'] = len(outs)
    ctx.cov['behaviours_replayed_into_impl'] = len(outs)
    ctx.cov['schedules'] = len(outs)
    ctx.log('S->C %d runs of %d programs (system library, link-time wrapping and preloading with %s workers) compared with the specification result: %d differ'
            % (len(outs), len(expected), '/'.join(map(str, nws)), nbad))
    # --- (3) binding self-test: a program changed behind the specification's back must be noticed
    i0 = next(i for i in sorted(expected) if any(o[0] == 'ADD' for b in progs[i - 1]['threads'] for o in b))
    mutp = json.loads(json.dumps(progs[i0 - 1]))
    done = False
    for b in mutp['threads']:
        for k_, o in enumerate(b):
            if o[0] == 'ADD' and not done:
                b[k_] = ['ADD', o[1], o[2] + 1, o[3]]; done = True
    mp = os.path.join(pdir, 'mut.prog'); write_pth_prog(mp, {'threads': [[tuple(o) for o in b] for b in mutp['threads']], 'barn': mutp['barn'], 'keydt': mutp['keydt'], 'mkind': mutp['mkind'], 'nfill': mutp.get('nfill', 0)})
    rc, o = sh('timeout 30 %s %s' % (b_ld, mp), timeout=60, env={'MYTH_NUM_WORKERS': '2'})
    line = [l for l in o.split('\n') if l.startswith('{')]
    if rc == 0 and line and norm_result(json.loads(line[-1])) == expected[i0]:
        raise Infra('bind self-test: a changed program still produces the expected result')
    ctx.cov['bind_selftest'].append({'corruption': 'one ADD operand changed in the program given to the implementation', 'rejected': True})
    ctx.cov['samples'].append({'program': progs[i0 - 1], 'expected': expected[i0]})
    ctx.assumptions += ['programs are small (at most 4 threads) so that TLC can enumerate every interleaving; determinacy is certified by TLC per program',
                        'the comparison is of printed results and exit status of whole runs; each (program, mechanism, worker count) is one execution under the native scheduler']


CHECKS = {'C16': check_C16, 'C03': check_C03, 'C01': check_C01, 'C02': check_C02, 'C04': check_C04, 'C09': check_C09, 'C10': check_C10, 'C11': check_C11, 'C05': check_C05, 'C06': check_C06, 'C07': check_C07,
          'C08': check_C08, 'C12': check_C12, 'C13': check_C13, 'C14': check_C14, 'C15': check_C15, 'C17': check_C17, 'C18': check_C18, 'C19': check_C19, 'C20': check_C20}


def main():
    if len(sys.argv) < 4 or sys.argv[1] not in ('check', 'replay'):
        print(__doc__); return 2
    pid, tier = sys.argv[2], sys.argv[3]
    seed = int(os.environ.get('VERIF_SEED', '1'))
    if sys.argv[1] == 'replay':
        print(open(os.path.join(sys.argv[3], 'violation.json')).read()); return 0
    if pid not in CHECKS:
        print('unknown property', pid); return 2
    # every check builds into a directory of its own, so that checks may run side by side
    global BUILD
    BUILD = os.path.join(BUILD, pid + ('' if tier == 'quick' else '_' + tier))
    os.makedirs(BUILD, exist_ok=True)
    ctx = Ctx(pid, tier, seed)
    try:
        CHECKS[pid](ctx)
        return ctx.finish()
    except Infra as e:
        print('INFRASTRUCTURE ERROR (not a verdict): %s' % e)
        if ctx.violations:
            # violations already established (and reproduced) stand; the evidence records the interruption
            ctx.assumptions.append('run interrupted by an infrastructure error after the violations were established: %s' % e)
            return ctx.finish()
        return 2



# ----------------------------------------------------------------------------- sync program generators
def _spawn_join(rng, child_bodies, main_extra=(), flagset=(0, 0, F_PF)):
    """main creates every child, optionally does main_extra, joins them all"""
    n = len(child_bodies)
    main = [(OP['CR'], k + 1, rng.choice(flagset), 0) for k in range(n)]
    main += list(main_extra)
    order = list(range(1, n + 1)); rng.shuffle(order)
    main += [(OP['JN'], k, 0, 0) for k in order]
    return [main] + child_bodies


def gen_mutex_prog(rng):
    nt = rng.randint(2, 5)
    nm = rng.randint(1, 2)
    bodies = []
    for _ in range(nt):
        ops = []
        for _ in range(rng.randint(1, 4)):
            m = rng.randrange(nm)
            r = rng.random()
            if r < 0.55:
                ops.append((OP['INC'], m, rng.choice((0, 0, 1, 3)), 0))      # b-1 = yield option inside the critical section
            elif r < 0.8:
                ops.append((OP['TL'], m, rng.choice((0, 0, 3)), rng.choice((0, 1))))
            elif r < 0.9:
                ops.append((OP['TLK'], m, rng.choice((-50, 0, 100, 400, 1500, 100000)), rng.choice((0, 3))))
            else:
                ops.append((OP['YD'], rng.choice((0, 1, 2)), 0, 0))
        bodies.append(ops)
    main_extra = [(OP['INC'], 0, 0, 0)] if rng.random() < 0.5 else []
    return {'init': [], 'bodies': _spawn_join(rng, bodies, main_extra)}


def gen_cond_prog(rng):
    if rng.random() < 0.25:
        # storm: waiters keep entering cond_wait (monotone predicate) while the opener raises the value several times
        # and broadcasts after releasing the mutex: wake-ups collide with waiters that are just enqueueing themselves
        m = rng.randint(2, 5)
        bodies = []
        for _ in range(rng.randint(2, 4)):
            lv = sorted(rng.sample(range(1, m + 1), rng.randint(1, min(3, m))))
            bodies.append([(OP['WAITGE'], 0, v, 0) for v in lv])
        opener = []
        for v in range(1, m + 1):
            opener += [(OP['CBCO'], 0, v, 1)] + ([(OP['YD'], rng.choice((0, 2)), 0, 0)] if rng.random() < 0.4 else [])
        bodies.insert(rng.randrange(len(bodies) + 1), opener)
        return {'init': [], 'bodies': _spawn_join(rng, bodies)}
    if rng.random() < 0.15:
        # turnstile: the threads pass one at a time in ticket order; each one waits for its number and calls the next
        n = rng.randint(2, 5)
        order = list(range(n)); rng.shuffle(order)
        bodies = [[(OP['WAITV'], 0, t, 0), (OP['CBC'], 0, t + 1, 1)] for t in order]
        return {'init': [], 'bodies': _spawn_join(rng, bodies)}
    if rng.random() < 0.3:   # gate: broadcast releases every waiter
        nwait = rng.randint(1, 4)
        bodies = [[(OP['WAITV'], 0, 1, 0)] for _ in range(nwait)]
        opener = [(OP['YD'], 2, 0, 0)] * rng.randint(0, 2) + [(OP['CBC'], 0, 1, 1)]
        bodies.insert(rng.randrange(len(bodies) + 1), opener)
        return {'init': [], 'bodies': _spawn_join(rng, bodies)}
    nb = rng.randint(1, 2)
    init = [(3, b, rng.randint(1, 2)) for b in range(nb)]
    bodies = []
    for b in range(nb):
        items = rng.randint(2, 5)
        np_, nc = rng.randint(1, 2), rng.randint(1, 2)
        bc = rng.choice((0, 0, 1))
        # with several producers/consumers and a capacity-limited buffer a plain signal can be consumed by the
        # wrong party only when both kinds wait on one condition; here each kind has its own condition, so
        # signal is enough -- broadcast is used as a variant
        def split(total, k):
            cuts = sorted(rng.randint(0, total) for _ in range(k - 1))
            return [b_ - a_ for a_, b_ in zip([0] + cuts, cuts + [total])]
        outside = rng.choice((0, 0, 1))      # 1: "unlock, then signal"
        for cnt in split(items, np_):
            bodies.append([(OP['CSIG'], b, bc, outside)] * cnt)
        for cnt in split(items, nc):
            bodies.append([(OP['CWAIT'], b, bc, outside)] * cnt)
    rng.shuffle(bodies)
    return {'init': init, 'bodies': _spawn_join(rng, bodies)}


def gen_barrier_prog(rng):
    n = rng.choice((1, 2, 2, 3, 3, 4, 5, 8))
    rounds = rng.randint(1, 4)
    bodies = []
    for _ in range(n):
        ops = []
        for _r in range(rounds):
            if rng.random() < 0.3:
                ops.append((OP['YD'], rng.choice((0, 1, 2)), 0, 0))
            ops.append((OP['BAR'], 0, 0, 0))
        bodies.append(ops)
    return {'init': [(1, 0, n)], 'bodies': _spawn_join(rng, bodies)}


def gen_jc_prog(rng):
    if rng.random() < 0.2:
        # a counter of N near 2^30 .. 2^31 decrements (the packed word then needs 31 bits for the decrement field): the
        # word is preset to N - m and the last m decrements are made by threads, with waiters arriving before / between
        N = rng.choice((2 ** 30 - 1, 2 ** 30, 2 ** 30 + 7, 2 ** 31 - 1))
        m = rng.randint(1, 3)
        bodies = [[(OP['YD'], rng.choice((0, 1, 2)), 0, 0)] * rng.randint(0, 2) + [(OP['JCDEC'], 0, 0, 0)] for _ in range(m)]
        for _ in range(rng.randint(1, 3)):
            bodies.append([(OP['YD'], rng.choice((0, 1, 2)), 0, 0)] * rng.randint(0, 2) + [(OP['JCWAIT'], 0, 0, 0)])
        rng.shuffle(bodies)
        prog = _spawn_join(rng, bodies, [(OP['JCWAIT'], 0, 0, 0)] if rng.random() < 0.6 else [])
        prog[0] = [(OP['JCPOKE'], 0, m, 0)] + prog[0]
        return {'init': [(2, 0, N)], 'bodies': prog}
    nd = rng.choice((1, 1, 2, 3, 4, 7))
    nwait = rng.randint(0, 3)
    bodies = []
    for _ in range(nd):
        bodies.append([(OP['YD'], rng.choice((0, 1, 2)), 0, 0)] * rng.randint(0, 2) + [(OP['JCDEC'], 0, 0, 0)])
    for _ in range(nwait):
        bodies.append([(OP['YD'], rng.choice((0, 1, 2)), 0, 0)] * rng.randint(0, 2) + [(OP['JCWAIT'], 0, 0, 0)] * rng.randint(1, 2))
    rng.shuffle(bodies)
    main_extra = [(OP['JCWAIT'], 0, 0, 0)] if rng.random() < 0.6 else []
    return {'init': [(2, 0, nd)], 'bodies': _spawn_join(rng, bodies, main_extra)}


def gen_uncond_prog(rng):
    if rng.random() < 0.25:
        # fan-out: one thread signals many variables, each with its own waiter, without blocking in between: every
        # signal pushes a woken thread onto the signaller's run queue (in the small-queue build up to the re-centring)
        n = rng.randint(9, 13)
        cons = [[(OP['UCWAIT'], i, 0, 0)] for i in range(n)]
        order = list(range(n)); rng.shuffle(order)
        prod = [(OP['UCSIG'], i, 10 + i, 0) for i in order]
        if rng.random() < 0.5:
            prod = [(OP['YD'], 2, 0, 0)] * rng.randint(1, 3) + prod     # give the waiters time to go to sleep first
        return {'init': [], 'bodies': _spawn_join(rng, cons + [prod])}
    if rng.random() < 0.35:
        # several producers and consumers share one mailbox: at most one of them waits at a time (the others retry), so
        # consecutive rendezvous on the same variable have different waiters and signallers
        np_, nc = rng.randint(1, 3), rng.randint(1, 3)
        items = rng.randint(max(np_, nc), 8)

        def split(total, k_):
            cuts = sorted(rng.randint(0, total) for _ in range(k_ - 1))
            return [b_ - a_ for a_, b_ in zip([0] + cuts, cuts + [total])]
        bodies = [[(OP['UCSIG'], 0, 10 + i, 0)] * c for i, c in enumerate(split(items, np_))] + [[(OP['UCWAIT'], 0, 0, 0)] * c for c in split(items, nc)]
        bodies = [b for b in bodies if b]
        rng.shuffle(bodies)
        return {'init': [], 'bodies': _spawn_join(rng, bodies)}
    k = rng.choice((1, 2, 3, 4, 6, 12, 20))
    prod = [(OP['UCSIG'], 0, 10 + i, 0) for i in range(k)]
    cons = [(OP['UCWAIT'], 0, 0, 0) for _ in range(k)]
    for ops in (prod, cons):
        for _ in range(rng.randint(0, 2)):
            ops.insert(rng.randrange(len(ops) + 1), (OP['YD'], rng.choice((0, 1, 2)), 0, 0))
    bodies = [prod, cons]
    rng.shuffle(bodies)
    return {'init': [], 'bodies': _spawn_join(rng, bodies)}


def gen_felock_prog(rng):
    if rng.random() < 0.35:
        # readers: the status is left as it is (wait for full, mark full again) by several threads that may all be
        # asleep when the single writer fills the slot: every mark must pass the wake-up on
        nr = rng.randint(2, 4)
        bodies = [[(OP['FEWL'], 0, 0, 2), (OP['FEMS'], 0, 1, 0)]]
        for _ in range(nr):
            ops = []
            for _ in range(rng.randint(1, 2)):
                ops += [(OP['FEWL'], 0, 1, 0), (OP['FEMS'], 0, 1, 0)]
                if rng.random() < 0.3:
                    ops.append((OP['YD'], rng.choice((0, 1, 2)), 0, 0))
            bodies.append(ops)
        rng.shuffle(bodies)
        return {'init': [], 'bodies': _spawn_join(rng, bodies)}
    np_, nc = rng.randint(1, 3), rng.randint(1, 3)
    items = rng.randint(max(np_, nc), 6)

    def split(total, k):
        cuts = sorted(rng.randint(0, total) for _ in range(k - 1))
        return [b_ - a_ for a_, b_ in zip([0] + cuts, cuts + [total])]
    bodies = []
    for cnt in split(items, np_):
        ops = []
        for _ in range(cnt):
            ops += [(OP['FEWL'], 0, 0, 2), (OP['FEMS'], 0, 1, 0)]
            if rng.random() < 0.2:
                ops.append((OP['YD'], rng.choice((0, 1, 2)), 0, 0))
        bodies.append(ops)
    for cnt in split(items, nc):
        ops = []
        for _ in range(cnt):
            ops += [(OP['FEWL'], 0, 1, 1), (OP['FEMS'], 0, 0, 0)]
        bodies.append(ops)
    if rng.random() < 0.5:
        # plain lock / unlock of the same full/empty lock mixed with the status operations
        for _ in range(rng.randint(1, 2)):
            ops = []
            for _ in range(rng.randint(1, 4)):
                ops += [(OP['FELK'], 0, 0, 0)] + ([(OP['YD'], rng.choice((0, 2)), 0, 0)] if rng.random() < 0.3 else []) + [(OP['FEUL'], 0, 0, 0)]
            bodies.append(ops)
    rng.shuffle(bodies)
    return {'init': [], 'bodies': _spawn_join(rng, bodies)}


def gen_tls_prog(rng, churn=False):
    """thread-specific data.  main creates `fill` filler keys (so that the keys under test sit at chosen
    positions of the 3-level tree), then the keys under test; children store / read back / overwrite values
    across yields (migrations), terminate by return, exit or cancellation; invalid indices are probed."""
    ops = []
    slot = 100
    # (12..14, 28, 61.., 253..: the keys under test straddle a leaf / node boundary of the tree, slot 15 of a leaf included)
    fill = rng.choice((0, 0, 3, 12, 13, 14, 15, 16, 17, 28, 29, 61, 62, 63, 64, 253, 254, 255, 256, 257, 300, 511, 767, 1019)) if not churn else rng.choice((0, 2))
    nk = rng.randint(2, 5)
    if not churn and rng.random() < 0.5:
        # place the keys under test across a leaf boundary of the tree: key r sits in the last cell (15) of a leaf,
        # key r-1 in the same leaf, key r+1 in the next leaf (next node for j = 3, 15, 63)
        r = rng.randrange(1, nk)
        fill = 16 * rng.choice((0, 0, 1, 3, 4, 15, 16, 17, 63)) + 15 - r
    for i in range(fill):
        ops.append((OP['KCREATE'], slot, rng.choice((0, 1, 2, 3)), 0)); slot += 1
    fresh_reads = (not churn) and rng.random() < 0.35
    dts = [rng.choice((0, 0, 0, 1) if fresh_reads else (0, 1, 2, 3)) for _ in range(nk)]
    for i in range(nk):
        ops.append((OP['KCREATE'], i, dts[i], 0))
    if fill >= 1019 and rng.random() < 0.7:      # exhaustion: the table has 1024 keys
        for i in range(1024 - fill - nk + 2):
            ops.append((OP['KCREATE'], 1090, 0, 0))
    if fill and rng.random() < 0.5:               # shuffle the free list: delete some fillers, create again
        dels = rng.sample(range(100, 100 + fill), min(fill, rng.randint(1, 4)))
        for d in dels:
            ops.append((OP['KDELETE'], d, 0, 0))
        for d in dels[:rng.randint(0, len(dels))]:
            ops.append((OP['KCREATE'], d, rng.choice((0, 1)), 0))
    nt = rng.randint(1, 4)
    bodies = []
    cancelled = []
    if fresh_reads:
        # "a thread that never stored under a key reads NULL": threads run one after the other on recycled descriptors;
        # the first stores under every key, each later one stores under a single key and then reads all of them
        nt = rng.randint(2, 4)
    for t in range(1, nt + 1):
        b = []
        if fresh_reads:
            if t == 1:
                b = [(OP['KSET'], k, 1000 * t + k + 1, 0) for k in range(nk)]
            else:
                k0 = rng.randrange(nk)
                b = [(OP['KSET'], k0, 1000 * t + k0 + 1, 0)] + [(OP['KGET'], k, 0, 0) for k in range(nk)]
                if rng.random() < 0.5:
                    b.insert(1, (OP['YD'], rng.choice((0, 2, 3)), 0, 0))
            bodies.append(b)
            continue
        for _ in range(rng.randint(1, 10)):
            r = rng.random()
            k = rng.randrange(nk)
            if r < 0.4:
                b.append((OP['KSET'], k, rng.choice((0, 1000 * t + k + 1, 1000 * t + k + 1, 500000 + 1000 * t + k)), 0))
            elif r < 0.7:
                b.append((OP['KGET'], k, 0, 0))
            elif r < 0.85:
                b.append((OP['YD'], rng.choice((0, 2, 3, 4)), 0, 0))
            elif r < 0.93:
                b.append((OP['KSET'], rng.choice((-1, 1024, 5000, -7)), 5, 1))
            else:
                b.append((OP['KGET'], rng.choice((-1, 1024, 4096)), 0, 1))
        if churn and rng.random() < 0.6:
            # several threads delete the same key (slot 0 or 1, created by main) at about the same time: exactly one wins
            b.insert(rng.randrange(len(b) + 1), (OP['KDELETE'], rng.choice((0, 1)), 0, 0))
        if churn:
            own = 200 + 10 * t
            for i in range(rng.randint(2, 4)):
                b.append((OP['KCREATE'], own + i, 1, 0))
                if rng.random() < 0.6:
                    b.append((OP['KDELETE'], own + rng.randint(0, i), 0, 0))
        e = rng.random()
        if e < 0.25:
            b.append((OP['EX'], 2000 + t, 0, 0))
        elif e < 0.4:
            b.append((OP['TESTCANCEL'], 0, 0, 0)); cancelled.append(t)
        bodies.append(b)
    main = list(ops)
    if fresh_reads or (not churn and rng.random() < 0.5):
        # one thread after the other: descriptors (and the key-tree storage embedded in them) are recycled, so a later
        # thread works on memory that holds an earlier thread's values
        for t in range(1, nt + 1):
            main.append((OP['CR'], t, rng.choice((0, 0, F_PF)), 0))
            if t in cancelled:
                main.append((OP['CANCEL'], t, 0, 0))
            main.append((OP['JN'], t, 0, 0))
        main += [(OP['KSET'], 0, 99, 0), (OP['KGET'], 0, 0, 0)]
    else:
        main += [(OP['CR'], t, rng.choice((0, 0, F_PF)), 0) for t in range(1, nt + 1)]
        if rng.random() < 0.3:
            main.append((OP['KDELETE'], rng.randrange(nk), 0, 0))     # delete a key while threads may hold values under it
        main += [(OP['KSET'], 0, 99, 0), (OP['KGET'], 0, 0, 0)]
        for t in cancelled:
            main.append((OP['CANCEL'], t, 0, 0))
        order = list(range(1, nt + 1)); rng.shuffle(order)
        main += [(OP['JN'], t, 0, 0) for t in order]
    main += [(OP['KGET'], 0, 0, 0), (OP['KDELETE'], 0, 1, 2000), (OP['KDELETE'], 1, 0, 0), (OP['KDELETE'], 1, 0, 0)]
    # in some programs destructor 3 itself ends the thread (myth_exit from inside the destructor)
    init = []
    if not churn and 3 in dts and rng.random() < 0.6:
        # destructor 3 itself ends the thread; every thread holds a value under a key with that destructor
        init.append((6, 0, 1))
        k3 = dts.index(3)
        for t in range(1, len(bodies) + 1):
            if not fresh_reads and rng.random() < 0.8:
                bodies[t - 1].insert(0, (OP['KSET'], k3, 1000 * t + k3 + 1, 0))
    if 2 in dts and rng.random() < 0.6:
        # destructor 2 suspends (yields, in some programs blocks on mutex 3 which another thread holds across yields):
        # the terminating thread may continue on another worker
        dy = rng.choice((1, 2, 3, 5, 6))
        init.append((8, 0, dy))
        if dy & 4:
            hold = len(bodies) + 1
            bodies.append([(OP['INC'], 3, rng.choice((1, 3)), 0)] * rng.randint(1, 3))
            main.insert(len(ops), (OP['CR'], hold, 0, 0)); main.append((OP['JN'], hold, 0, 0))
    return {'init': init, 'bodies': [main] + bodies}


def gen_timed_prog(rng):
    """sleep (valid and malformed durations), timedlock against a holder that releases before / after the
    deadline, timedjoin against a target that finishes before / after the deadline; other threads keep running"""
    bodies = []
    kind = rng.choice(('sleep', 'sleep', 'tlock', 'tlock', 'tjoin', 'mix', 'longsleep', 'edges'))
    main_extra = []
    if kind == 'edges':
        # every edge of the valid range of the nanosecond (and second) field in one program: both ends, just outside
        cases = [(0, 0), (0, 1), (0, 999999999), (0, 1000000000), (0, 1000000001), (0, -1), (-1, 0), (-1, 999999999), (1, 1000000000),
                 (0, 2147483647), (1, 999999999), (2, 0)]
        rng.shuffle(cases)
        half = len(cases) // 2
        bodies = [[(OP['SLEEP'], a_, b_, 0) for a_, b_ in cases[:half]], [(OP['SLEEP'], a_, b_, 0) for a_, b_ in cases[half:]],
                  [(OP['YD'], 2, 0, 0)] * rng.randint(1, 4)]
        return {'init': [(5, 0, 700)], 'bodies': _spawn_join(rng, bodies)}
    if kind == 'longsleep':
        # usleep / sleep with long durations (the virtual clock advances by up to 0.7 s per reading): values around the
        # points where 32-bit microsecond arithmetic wraps (2^32 / 1000 us) and around whole seconds
        for _ in range(rng.randint(1, 2)):
            b = []
            for _ in range(rng.randint(1, 3)):
                if rng.random() < 0.7:
                    b.append((OP['SLEEP'], 0, rng.choice((0, 1, 999999, 1000000, 1000001, 2147483, 2147484, 4294967, 4294968, 4300000, 8589935, 9999999)), 1))
                else:
                    b.append((OP['SLEEP'], rng.choice((0, 1, 2, 5)), 0, 2))
            bodies.append(b)
        bodies.append([(OP['YD'], 2, 0, 0)] * rng.randint(1, 6))
        return {'init': [(5, 0, 700)], 'bodies': _spawn_join(rng, bodies)}
    if kind in ('sleep', 'mix'):
        for _ in range(rng.randint(1, 3)):
            b = []
            for _ in range(rng.randint(1, 3)):
                r = rng.random()
                if r < 0.6:
                    b.append((OP['SLEEP'], 0, rng.choice((0, 1, 1000, 150000, 900000, 2500000, 999999999 if rng.random() < 0.1 else 300000)), 0))
                elif r < 0.8:
                    b.append((OP['SLEEP'], rng.choice((-1, 0, 0)), rng.choice((-1, 1000000000, 2000000000, -5)), 0))
                else:
                    b.append((OP['YD'], rng.choice((0, 2)), 0, 0))
            bodies.append(b)
        bodies.append([(OP['YD'], 2, 0, 0)] * rng.randint(1, 6))          # somebody else who should get the worker meanwhile
    if kind in ('tlock', 'mix'):
        holder = [(OP['LK'], 0, 0, 0)] + [(OP['YD'], 2, 0, 0)] * rng.randint(0, 8) + [(OP['UL'], 0, 0, 0)]
        bodies.append(holder)
        for _ in range(rng.randint(1, 2)):
            bodies.append([(OP['TLK'], 0, rng.choice((-50, 0, 100, 400, 1500, 5000, 100000)), rng.choice((0, 3)))] * rng.randint(1, 2))
        if rng.random() < 0.5:
            bodies.append([(OP['INC'], 0, 0, 0)])
    progs = _spawn_join(rng, bodies) if bodies else [[]]
    if kind in ('tjoin', 'mix'):
        # main creates a slow child and a timed-joiner... only the creator may join: main does the timed join itself
        n0 = len(progs)
        slow = [(OP['YD'], 2, 0, 0)] * rng.randint(0, 10) + ([(OP['SLEEP'], 0, 400000, 0)] if rng.random() < 0.4 else [])
        progs.append(slow)
        progs[0] = [(OP['CR'], n0, 0, 0)] + progs[0] + [(OP['TJN'], n0, rng.choice((-10, 0, 200, 1000, 50000)), 0)]
    return {'init': [], 'bodies': progs}


def gen_once_prog(rng):
    if rng.random() < 0.25:
        # control 3: the init routine is a program of its own (a body that is never created as a thread): it creates
        # and joins threads (and yields) while the other callers wait for it
        nt = rng.randint(1, 4)
        bodies = []
        for _ in range(nt):
            ops = []
            for _ in range(rng.randint(1, 2)):
                ops.append((OP['ONCE'], rng.choice((3, 3, 0, 1)), 0, 0))
                if rng.random() < 0.3:
                    ops.append((OP['YD'], rng.choice((0, 1, 2)), 0, 0))
            bodies.append(ops)
        nk = rng.randint(1, 2)                      # children of the init routine: bodies nt+1 .. nt+nk
        kids = [[(OP['YD'], rng.choice((0, 1, 2)), 0, 0)] * rng.randint(0, 2) + ([(OP['ONCE'], 1, 0, 0)] if rng.random() < 0.4 else []) for _ in range(nk)]
        routine = [(OP['CR'], nt + 1 + j, rng.choice((0, 0, F_PF)), 0) for j in range(nk)]
        if rng.random() < 0.4:
            routine.append((OP['YD'], rng.choice((0, 1, 2)), 0, 0))
        order = list(range(nk)); rng.shuffle(order)
        routine += [(OP['JN'], nt + 1 + j, 0, 0) for j in order]
        main_extra = [(OP['ONCE'], 3, 0, 0)] if rng.random() < 0.5 else []
        allb = _spawn_join(rng, bodies, main_extra) + kids + [routine]
        return {'init': [(7, 0, nt + nk + 1)], 'bodies': allb}
    nt = rng.randint(1, 5)
    bodies = []
    withmutex = rng.random() < 0.4       # control 2: the init routine blocks on mutex 3, which other threads hold across yields
    if withmutex:
        for _ in range(rng.randint(1, 2)):
            bodies.append([(OP['INC'], 3, rng.choice((1, 3)), 0)] * rng.randint(1, 2))
    for _ in range(nt):
        ops = []
        for _ in range(rng.randint(1, 3)):
            ops.append((OP['ONCE'], rng.choice((0, 0, 1, 2, 2) if withmutex else (0, 0, 1)), 0, 0))
            if rng.random() < 0.3:
                ops.append((OP['YD'], rng.choice((0, 1, 2)), 0, 0))
        bodies.append(ops)
    main_extra = [(OP['ONCE'], 0, 0, 0)] if rng.random() < 0.5 else []
    return {'init': [], 'bodies': _spawn_join(rng, bodies, main_extra)}


if __name__ == '__main__':
    sys.exit(main())
