#!/usr/bin/env python3
"""extract_asm.py <repo> <cfgdir-or-''> <out.tla> [--hdr DIR] [--mutate NAME]

Extract the context-switch instruction sequences of the library as compiled, and write them as the TLA+ module
CtxAsm (constants of CtxSwitch.tla).

A stub that includes the real myth_context_func.h expands each of the four switching macros in a function of
its own.  `gcc -S` brackets the text of an asm statement between #APP / #NO_APP with the operands already
substituted: that text is the instruction list.  `gcc -E` gives the statement with its constraint lists:
outputs, inputs (which register holds the context switched from / to) and clobbers.

Instructions are translated one by one; an instruction the abstract machine does not know becomes
[op |-> "unknown"], which the check reports as an infrastructure error (the model cannot judge it), never as a
verdict.  --mutate applies a named change to the extracted lists (model-level mutants used for calibration).
"""
import sys, os, re, subprocess, tempfile

STUB = r'''
#include "myth_config.h"
#include "myth_context.h"
#include "myth_context_func.h"
void verif_cb(void *a, void *b, void *c);
__attribute__((noinline)) void VERIF_swap(myth_context_t from, myth_context_t to){ myth_swap_context_i(from, to); }
__attribute__((noinline)) void VERIF_swapcall(myth_context_t from, myth_context_t to, void *x, void *y, void *z){ myth_swap_context_withcall_i(from, to, verif_cb, x, y, z); }
__attribute__((noinline)) void VERIF_set(myth_context_t to){ myth_set_context_i(to); }
__attribute__((noinline)) void VERIF_setcall(myth_context_t to, void *x, void *y, void *z){ myth_set_context_withcall_i(to, verif_cb, x, y, z); }
'''
LETTER = {'a': 'rax', 'b': 'rbx', 'c': 'rcx', 'd': 'rdx', 'S': 'rsi', 'D': 'rdi'}
FUNCS = [('VERIF_swap', 'SwapL', False), ('VERIF_swapcall', 'SwapCallL', False), ('VERIF_set', 'SetL', True), ('VERIF_setcall', 'SetCallL', True)]


def reg(s):
    s = s.strip().lstrip('%')
    m = {'eax': 'rax', 'ebx': 'rbx', 'ecx': 'rcx', 'edx': 'rdx', 'esi': 'rsi', 'edi': 'rdi', 'ebp': 'rbp'}
    return m.get(s, s)


def translate(line):
    l = line.strip()
    l = re.sub(r'\s+', ' ', l)
    m = re.fullmatch(r'(\w+):', l)
    if m:
        return ('label', m.group(1), 0)
    m = re.fullmatch(r'(sub|add)q? \$(\d+|0x[0-9a-f]+), ?%rsp', l)
    if m:
        n = int(m.group(2), 0)
        if n % 8 == 0:
            return ('subsp' if m.group(1) == 'sub' else 'addsp', '', n // 8)
    m = re.fullmatch(r'pushq? (%\w+)', l)
    if m:
        return ('push', reg(m.group(1)), 0)
    m = re.fullmatch(r'popq? (%\w+)', l)
    if m:
        return ('pop', reg(m.group(1)), 0)
    m = re.fullmatch(r'leaq? (\w+)\(%rip\), ?(%\w+)', l)
    if m:
        return ('lealabel', reg(m.group(2)), 0)
    m = re.fullmatch(r'movq? %rsp, ?\((%\w+)\)', l)
    if m:
        return ('savesp', reg(m.group(1)), 0)
    m = re.fullmatch(r'movq? \((%\w+)\), ?%rsp', l)
    if m:
        return ('loadsp', reg(m.group(1)), 0)
    m = re.fullmatch(r'call[q]? \*?[\w@.]+', l)
    if m:
        return ('callcb', '', 0)
    m = re.fullmatch(r'jmpq? \*(%\w+)', l)
    if m:
        return ('jmpreg', reg(m.group(1)), 0)
    if l in ('ret', 'retq'):
        return ('ret', '', 0)
    m = re.fullmatch(r'(stmxcsr|fnstcw) (\d*)\(%rsp\)', l)
    if m:
        return ('stfp', '', int(m.group(2) or 0) // 8)
    m = re.fullmatch(r'(ldmxcsr|fldcw) (\d*)\(%rsp\)', l)
    if m:
        return ('ldfp', '', int(m.group(2) or 0) // 8)
    return ('unknown', l.replace('"', "'").replace('\\', '/'), 0)


def split_top(s, sep):
    out, depth, cur, instr = [], 0, '', False
    i = 0
    while i < len(s):
        ch = s[i]
        if instr:
            cur += ch
            if ch == '\\':
                cur += s[i + 1]; i += 1
            elif ch == '"':
                instr = False
        elif ch == '"':
            instr = True; cur += ch
        elif ch in '([{':
            depth += 1; cur += ch
        elif ch in ')]}':
            depth -= 1; cur += ch
        elif ch == sep and depth == 0:
            out.append(cur); cur = ''
        else:
            cur += ch
        i += 1
    out.append(cur)
    return out


def constraints(pre, fname):
    """outputs, inputs, clobbers of the first asm statement in function fname of the preprocessed text"""
    i = pre.index('void ' + fname + '(')
    j = pre.index('asm volatile(', i) + len('asm volatile(')
    depth, k = 1, j
    instr = False
    while depth:
        ch = pre[k]
        if instr:
            if ch == '\\':
                k += 1
            elif ch == '"':
                instr = False
        elif ch == '"':
            instr = True
        elif ch == '(':
            depth += 1
        elif ch == ')':
            depth -= 1
        k += 1
    body = pre[j:k - 1]
    parts = split_top(body, ':')
    parts += [''] * (4 - len(parts))
    outs = [x.strip() for x in split_top(parts[1], ',') if x.strip()]
    ins = [x.strip() for x in split_top(parts[2], ',') if x.strip()]
    clob = [x.strip().strip('"') for x in split_top(parts[3], ',') if x.strip()]
    outregs = []
    for o in outs:
        m = re.match(r'"=&?(\w)"', o)
        outregs.append(LETTER.get(m.group(1), '?' + m.group(1)) if m else '?')
    inregs = []
    for x in ins:
        m = re.match(r'"(\w+)"\s*\((.*)\)$', x, re.S)
        c, expr = m.group(1), m.group(2)
        r = outregs[int(c)] if c.isdigit() else LETTER.get(c, '?' + c)
        inregs.append((r, expr))
    return outregs, inregs, [reg(c) for c in clob]


def sh(cmd):
    p = subprocess.run(cmd, shell=True, capture_output=True, text=True)
    if p.returncode != 0:
        sys.stderr.write(p.stdout + p.stderr)
        sys.exit(2)
    return p.stdout


MUTANTS = {
    # name: function on the dict of lists (records as python dicts)
    'drop_push_r12': lambda L: [L[k].__setitem__('code', [i for i in L[k]['code'] if not (i[0] in ('push', 'pop') and i[1] == 'r12')]) for k in ('SwapL', 'SwapCallL')],
    'redzone_64': lambda L: [L[k].__setitem__('code', [(i[0], i[1], 8) if i[0] in ('subsp', 'addsp') and i[2] == 16 else i for i in L[k]['code']]) for k in ('SwapL', 'SwapCallL')],
    'drop_pad': lambda L: [L[k].__setitem__('code', [i for i in L[k]['code'] if not (i[0] in ('subsp', 'addsp') and i[2] == 1)]) for k in ('SwapL', 'SwapCallL')],
    'call_before_save': lambda L: L['SwapCallL'].__setitem__('code', (lambda c: [i for i in c if i[0] != 'callcb'][:[x[0] for x in c].index('savesp')] + [('callcb', '', 0)] + [i for i in c if i[0] != 'callcb'][[x[0] for x in c].index('savesp'):])(L['SwapCallL']['code'])),
    'r8_not_clobbered': lambda L: [L[k].__setitem__('clobbers', [c for c in L[k]['clobbers'] if c != 'r8']) for k in L],
    'save_into_to': lambda L: L['SwapL'].__setitem__('code', [(i[0], L['SwapL']['to'], i[2]) if i[0] == 'savesp' else i for i in L['SwapL']['code']]),
}


def main():
    repo, cfgdir, out = sys.argv[1:4]
    rest = sys.argv[4:]
    mutate = rest[rest.index('--mutate') + 1] if '--mutate' in rest else None
    hdr = rest[rest.index('--hdr') + 1] if '--hdr' in rest else None       # directory searched first for headers
    d = tempfile.mkdtemp(prefix='ctxasm_', dir=os.path.dirname(os.path.abspath(out)))
    stub = os.path.join(d, 'stub.c')
    open(stub, 'w').write(STUB)
    inc = '%s -I%s/include -I%s/src %s' % (('-I' + hdr) if hdr else '', repo, repo, ('-I' + cfgdir) if cfgdir else '')
    flags = '-O2 -w -D_GNU_SOURCE -DMYTH_WRAP=MYTH_WRAP_VANILLA ' + inc
    asm = sh('gcc %s -S %s -o -' % (flags, stub))
    pre = sh('gcc %s -E -P %s' % (flags, stub))
    L = {}
    for fname, tname, kills in FUNCS:
        m = re.search(r'^%s:\n(.*?)\n\t\.cfi_endproc' % fname, asm, re.S | re.M)
        if not m:
            sys.stderr.write('function %s not found in the compiler output\n' % fname); sys.exit(2)
        body = m.group(1)
        a = re.search(r'#APP\n# \d+ "[^"]*" 1\n(.*?)\n# 0 "" 2', body, re.S)    # the first asm statement only
        if not a:
            sys.stderr.write('no asm statement in %s\n' % fname); sys.exit(2)
        code = []
        for line in a.group(1).split('\n'):
            line = line.strip()
            if not line or line.startswith('#'):
                continue
            for piece in line.split(';'):
                if piece.strip():
                    code.append(translate(piece))
        outs, ins, clob = constraints(pre, fname)
        fromreg = next((r for r, e in ins if re.search(r'\bfrom\b', e)), '')
        toreg = next((r for r, e in ins if re.search(r'\bto\b', e)), '')
        L[tname] = {'code': code, 'from': fromreg, 'to': toreg, 'outputs': outs, 'clobbers': clob, 'kills': kills}
    if mutate:
        MUTANTS[mutate](L)
    for f in os.listdir(d):
        os.remove(os.path.join(d, f))
    os.rmdir(d)

    def S(xs):
        return '{' + ', '.join('"%s"' % x for x in xs) + '}'
    with open(out, 'w') as f:
        f.write('------------------------------- MODULE CtxAsm -------------------------------\n')
        f.write('(* GENERATED by tools/extract_asm.py from the asm statements of myth_context_func.h as compiled\n')
        f.write('   (gcc -S: instruction text between #APP / #NO_APP; gcc -E: constraint lists).%s *)\n' % (('  MUTANT: ' + mutate) if mutate else ''))
        for tname in ('SwapL', 'SwapCallL', 'SetL', 'SetCallL'):
            x = L[tname]
            code = ',\n      '.join('[op |-> "%s", r |-> "%s", n |-> %d]' % i for i in x['code'])
            f.write('%s ==\n  [code |-> <<\n      %s >>,\n   from |-> "%s", to |-> "%s", kills |-> %s,\n   outputs |-> %s,\n   clobbers |-> %s]\n'
                    % (tname, code, x['from'], x['to'], 'TRUE' if x['kills'] else 'FALSE', S(x['outputs']), S(x['clobbers'])))
        f.write('=============================================================================\n')
    unknown = [(t, i[1]) for t in L for i in L[t]['code'] if i[0] == 'unknown']
    for t, txt in unknown:
        print('UNKNOWN %s: %s' % (t, txt))
    print('extracted: ' + ', '.join('%s=%d' % (t, len(L[t]['code'])) for t in L))


if __name__ == '__main__':
    main()
