#!/usr/bin/env python3
"""keep_seed.py <name> <property> <worktree> <needs...>: store a confirmed seeded change under /verif/seeded/<name>/"""
import sys, os, shutil, json, re
name, prop, wt = sys.argv[1:4]
needs = ' '.join(sys.argv[4:])
d = '/verif/seeded/' + name
os.makedirs(d, exist_ok=True)
for f in ('patch.diff', 'patch_adapted_to_current_hooks.diff', 'patch_adapted_call_only.diff', 'demo.c', 'run_demo.sh', 'NOTES.md', 'demo.cc', 'demo.sh'):
    p = os.path.join(wt, 'seeded', f)
    if os.path.exists(p):
        shutil.copy(p, d)
conf = open('/tmp/confirm_%s.log' % prop).read() if os.path.exists('/tmp/confirm_%s.log' % prop) else ''
tries = {}
for f in os.listdir('/tmp'):
    m = re.match(r'try_(%s\w*)\.out' % prop, f)
    if m:
        tries[m.group(1)] = open('/tmp/' + f).read().strip()
meta = {'property': prop, 'needs_to_manifest': needs,
        'confirmed_in_scratch_worktree': conf.strip().split('\n'),
        'checks_run_against_it': tries}
json.dump(meta, open(os.path.join(d, 'meta.json'), 'w'), indent=1)
print('kept', d)
