#!/usr/bin/env python3
"""wsq_replay.py <tlc-output> <unit_wsq binary> [initbase]: replay the BEHAVIOUR lines of a TLC -simulate run of WSQReplay
step by step in the real queue code; prints 'behaviours=.. steps=.. failed=..' and the first divergences"""
import re, json, subprocess, sys, tempfile, os
pid = {'o': 0, 't1': 1, 't2': 2}
behs = []
for l in open(sys.argv[1]):
    if l.startswith('<<"BEHAVIOUR"'):
        m = re.match(r'<<"BEHAVIOUR", "(.*)">>$', l.strip())
        behs.append(json.loads(m.group(1).encode().decode('unicode_escape')))
fd, path = tempfile.mkstemp(suffix='.txt'); os.close(fd)
with open(path, 'w') as f:
    for b in behs:
        f.write('BEGIN %d %d\n' % (len(b), int(sys.argv[3]) if len(sys.argv) > 3 else 1))
        for e in b:
            pt = e['ptr']
            f.write('%d %s %s %d %d %d %d %d %d %d %d\n' % (pid[e['p']], e['from'], e['to'], e['v'], e['top'], e['base'], pt['0'], pt['1'], pt['2'], pt['3'], e['lock']))
try:
    out = subprocess.run([sys.argv[2], path], capture_output=True, text=True, timeout=300)
    print(out.stdout[-1500:])
    sys.exit(out.returncode)
except subprocess.TimeoutExpired:
    print('behaviours=%d steps=0 failed=%d HANG' % (len(behs), len(behs))); sys.exit(1)
finally:
    os.remove(path)
