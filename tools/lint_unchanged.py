#!/usr/bin/env python3
"""Heuristic lint: for every top-level action definition of a TLA+ module, report variables that are
neither primed nor listed in an UNCHANGED.  usage: lint_unchanged.py Module.tla var1,var2,... [tuple=a,b,c ...]"""
import re, sys
src = open(sys.argv[1]).read()
allvars = sys.argv[2].split(',')
tuples = {}
for a in sys.argv[3:]:
    k, v = a.split('='); tuples[k] = v.split(',')
src = re.sub(r'\\\*.*', '', src)
defs = re.split(r'\n(?=[A-Za-z_][A-Za-z0-9_]*(?:\([^)]*\))?\s*==)', src)
for d in defs:
    m = re.match(r'([A-Za-z_][A-Za-z0-9_]*)', d)
    if not m: continue
    name = m.group(1)
    primed = set(re.findall(r"\b([a-zA-Z_][A-Za-z0-9_]*)'", d))
    unch = set()
    for u in re.findall(r'UNCHANGED\s*(<<[^>]*>>|[A-Za-z_][A-Za-z0-9_]*)', d):
        for v in re.findall(r'[A-Za-z_][A-Za-z0-9_]*', u):
            if v in tuples: unch.update(tuples[v])
            else: unch.add(v)
    if not primed and not unch: continue
    if not (primed & set(allvars)) and not (unch & set(allvars)): continue
    missing = [v for v in allvars if v not in primed and v not in unch]
    both = [v for v in allvars if v in primed and v in unch]
    if missing: print(f'{name}: missing {missing}')
    if both: print(f'{name}: both primed and unchanged (check branches) {both}')
