#!/bin/bash
# setup: everything is built from files on disk; checks rebuild the hooked library themselves
set -e
cd "$(dirname "$0")"
mkdir -p build evidence
gcc -O2 -I vrt -c vrt/vrt.c -o build/vrt_setup.o
for m in spec/Myth.tla spec/MythTrace.tla spec/MC_Core.tla spec/MC_Sync.tla spec/EnvParse.tla spec/InitFini.tla spec/InitFiniTrace.tla spec/BulkForkJoin.tla spec/DagRec.tla spec/PiDag.tla spec/WSQueue.tla spec/WSQReplay.tla spec/SleepStack.tla spec/SSReplay.tla spec/PeekCache.tla spec/BulkHuge.tla spec/CtxSwitch.tla spec/PthreadAbs.tla; do
  (cd spec && tla-sany $(basename $m) > /dev/null) || { echo "SANY failed on $m"; exit 1; }
done
echo setup ok
