SPECIFICATION DSpec
CONSTANTS MaxTasks = 3
 NWk = 2
 MaxOps = 2
VIEW NoHist
INVARIANT TinfLeWork
INVARIANT Counts
CHECK_DEADLOCK FALSE
