SPECIFICATION BSpec
CONSTANTS MaxN = 12
 Firsts <- FirstsT
 Lasts <- LastsT
 Steps = {1, 2, 3, 5}
 Grains = {1, 2, 4}
INVARIANT VisitOnce
INVARIANT NeverTwice
INVARIANT Emit
PROPERTY Terminates
CHECK_DEADLOCK FALSE
