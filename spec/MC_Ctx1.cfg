SPECIFICATION Spec
CONSTANTS Threads = {"a", "b", "c"}
 PFThreads = {"c"}
 Workers = {0}
 MaxSwitches = 4
 InitCFpar = 0
 InitPFpar = 0
INVARIANT OK
CHECK_DEADLOCK FALSE
