SPECIFICATION MSpec
CONSTANTS NW = 2
 MaxD = 4
 MaxS = 3
 MaxTag = 3
 MaxObj = 1
 MaxQ = 1
 NKeys = 2
 MaxL = 4
 Flags = {0, 1, 2}
 YieldOpts = {2}
 Ops = {"create", "join", "tryjoin", "detach", "yield"}
INVARIANT OK
INVARIANT ExactlyOnePlace
INVARIANT RunnableSaved
INVARIANT RunOnce
INVARIANT ReapOnce
INVARIANT NoUseAfterFree
INVARIANT StackOwner

INVARIANT QuiescentLedger
CHECK_DEADLOCK TRUE
