SPECIFICATION MSpec
CONSTANTS NW = 2
 MaxD = 4
 MaxS = 3
 MaxTag = 3
 MaxObj = 2
 MaxL = 4
 MaxQ = 5
 NKeys = 2
 SCN = "timed"
 NT = 3
 K = 1
 ND = 1
 BCAST = 0
INVARIANT OK
INVARIANT ExactlyOnePlace
INVARIANT RunnableSaved
INVARIANT RunOnce
INVARIANT ReapOnce
INVARIANT SleepNoEarly
INVARIANT TimeoutNotEarly
INVARIANT MutualExclusion
CHECK_DEADLOCK TRUE
