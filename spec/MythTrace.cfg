SPECIFICATION TSpec
CONSTANTS NW = 2
 MaxD = 8
 MaxS = 8
 MaxTag = 8
 MaxObj = 4
 MaxL = 8
INVARIANT OK
INVARIANT ExactlyOnePlace
INVARIANT RunnableSaved
INVARIANT RunOnce
INVARIANT ReapOnce
INVARIANT NoUseAfterFree
INVARIANT StackOwner
POSTCONDITION TraceAccepted
CHECK_DEADLOCK FALSE
