SPECIFICATION BSpec
CONSTANTS MaxN = 9
 Firsts <- FirstsQ
 Lasts <- LastsQ
 Steps = {1, 2, 3}
 Grains = {1, 2, 4}
INVARIANT VisitOnce
INVARIANT NeverTwice
INVARIANT Emit
PROPERTY Terminates
CHECK_DEADLOCK FALSE
