------------------------------- MODULE DagRec -------------------------------
(***************************************************************************)
(* Reference semantics of the DAG Recorder's totals (C18).                 *)
(*                                                                         *)
(* A recorded execution is a well-nested family of tasks                   *)
(*     task    ::= (section | other)* end                                  *)
(*     section ::= (create | other)* wait                                  *)
(* executed by workers under an explicit clock.  Every action that ends    *)
(* an interval (create / wait / other / end) closes the interval that      *)
(* began when the task last started or resumed.  The specification keeps   *)
(* the complete, uncontracted accounting: work (sum of interval lengths),  *)
(* critical path (longest dependency chain), interval counts by kind and   *)
(* edge counts by kind.  TLC enumerates every execution within the bounds  *)
(* (which task runs where, when tasks are resumed, clock increments) and   *)
(* prints it with its totals; the simulator replays it through the real    *)
(* recorder under every contraction setting and compares.                  *)
(***************************************************************************)
EXTENDS Integers, Sequences, FiniteSets, TLC, Json

CONSTANTS MaxTasks, NWk, MaxOps      \* tasks 1..MaxTasks, workers 0..NWk-1, at most MaxOps interval-ending actions per task

Tasks == 1..MaxTasks
Wk == 0..(NWk - 1)
VARIABLES clk, tk, busy, tot, hist
dvars == <<clk, tk, busy, tot, hist>>

NoTask == [st |-> "none", w |-> 0, par |-> 0, start |-> 0, est |-> 0, endcp |-> 0, kids |-> {}, ops |-> 0, insec |-> FALSE]
Tot0 == [work |-> 0, create |-> 0, wait |-> 0, other |-> 0, endn |-> 0,
         e_create |-> 0, e_create_cont |-> 0, e_wait_cont |-> 0, e_end |-> 0, e_other_cont |-> 0, tinf |-> 0]
DInit == /\ clk = 10 /\ busy = [w \in Wk |-> IF w = 0 THEN 1 ELSE 0]
         /\ tk = [t \in Tasks |-> IF t = 1 THEN [NoTask EXCEPT !.st = "run", !.start = 10] ELSE NoTask]
         /\ tot = Tot0 /\ hist = << [op |-> "start", t |-> 1, w |-> 0, clk |-> 10, x |-> 0] >>

Step(op, t, w, c, x) == hist' = Append(hist, [op |-> op, t |-> t, w |-> w, clk |-> c, x |-> x])
FreeTask == CHOOSE c \in Tasks : tk[c].st = "none" /\ \A d \in Tasks : tk[d].st = "none" => c <= d
Max2(a, b) == IF a > b THEN a ELSE b
RECURSIVE MaxOf(_)
MaxOf(S) == IF S = {} THEN 0 ELSE LET x == CHOOSE y \in S : TRUE IN Max2(x, MaxOf(S \ {x}))

\* the running task t closes its current interval at the new clock value c
Close(t, c) == [len |-> c - tk[t].start, cp |-> tk[t].est + (c - tk[t].start)]

Create(t, d) ==
  /\ tk[t].st = "run" /\ tk[t].ops < MaxOps /\ \E c \in Tasks : tk[c].st = "none"
  /\ LET c == clk + d  ch == FreeTask  iv == Close(t, c) IN
     /\ clk' = c
     /\ tk' = [tk EXCEPT ![t] = [@ EXCEPT !.st = "suspC", !.est = iv.cp, !.kids = @ \cup {ch}, !.ops = @ + 1, !.insec = TRUE],
                         ![ch] = [NoTask EXCEPT !.st = "ready", !.par = t, !.est = iv.cp]]
     /\ busy' = [busy EXCEPT ![tk[t].w] = 0]
     /\ tot' = [tot EXCEPT !.work = @ + iv.len, !.create = @ + 1, !.e_create = @ + 1, !.e_create_cont = @ + 1]
     /\ Step("create", t, tk[t].w, c, ch)
StartTask(ch, w) ==
  /\ tk[ch].st = "ready" /\ busy[w] = 0
  /\ clk' = clk + 1
  /\ tk' = [tk EXCEPT ![ch] = [@ EXCEPT !.st = "run", !.w = w, !.start = clk + 1]]
  /\ busy' = [busy EXCEPT ![w] = ch] /\ tot' = tot
  /\ Step("start_task", ch, w, clk + 1, tk[ch].par)
RetCreate(t, w) ==
  /\ tk[t].st = "suspC" /\ busy[w] = 0
  /\ clk' = clk + 1
  /\ tk' = [tk EXCEPT ![t] = [@ EXCEPT !.st = "run", !.w = w, !.start = clk + 1]]
  /\ busy' = [busy EXCEPT ![w] = t] /\ tot' = tot
  /\ Step("ret_create", t, w, clk + 1, 0)
EnterWait(t, d) ==
  /\ tk[t].st = "run" /\ tk[t].ops < MaxOps
  /\ LET c == clk + d  iv == Close(t, c) IN
     /\ clk' = c
     /\ tk' = [tk EXCEPT ![t] = [@ EXCEPT !.st = "suspW", !.est = iv.cp, !.ops = @ + 1]]
     /\ busy' = [busy EXCEPT ![tk[t].w] = 0]
     \* a section closes: one wait-cont edge to what follows, one end edge from each child it created
     /\ tot' = [tot EXCEPT !.work = @ + iv.len, !.wait = @ + 1, !.e_wait_cont = @ + 1, !.e_end = @ + Cardinality(tk[t].kids)]
     /\ Step("wait", t, tk[t].w, c, 0)
RetWait(t, w) ==
  /\ tk[t].st = "suspW" /\ busy[w] = 0 /\ \A k \in tk[t].kids : tk[k].st = "done"
  /\ clk' = clk + 1
  /\ tk' = [tk EXCEPT ![t] = [@ EXCEPT !.st = "run", !.w = w, !.start = clk + 1, !.kids = {}, !.insec = FALSE,
                                      !.est = Max2(@, MaxOf({tk[k].endcp : k \in tk[t].kids}))]]
  /\ busy' = [busy EXCEPT ![w] = t] /\ tot' = tot
  /\ Step("ret_wait", t, w, clk + 1, 0)
EnterOther(t, d) ==
  /\ tk[t].st = "run" /\ tk[t].ops < MaxOps
  /\ LET c == clk + d  iv == Close(t, c) IN
     /\ clk' = c
     /\ tk' = [tk EXCEPT ![t] = [@ EXCEPT !.st = "suspO", !.est = iv.cp, !.ops = @ + 1]]
     /\ busy' = [busy EXCEPT ![tk[t].w] = 0]
     /\ tot' = [tot EXCEPT !.work = @ + iv.len, !.other = @ + 1, !.e_other_cont = @ + 1]
     /\ Step("other", t, tk[t].w, c, 0)
RetOther(t, w) ==
  /\ tk[t].st = "suspO" /\ busy[w] = 0
  /\ clk' = clk + 1
  /\ tk' = [tk EXCEPT ![t] = [@ EXCEPT !.st = "run", !.w = w, !.start = clk + 1]]
  /\ busy' = [busy EXCEPT ![w] = t] /\ tot' = tot
  /\ Step("ret_other", t, w, clk + 1, 0)
\* a task ends only outside a section (everything it created has been waited for)
End(t, d) ==
  /\ tk[t].st = "run" /\ ~tk[t].insec
  /\ (t = 1 => \A k \in Tasks : k # 1 => tk[k].st \in {"none", "done"})
  /\ LET c == clk + d  iv == Close(t, c) IN
     /\ clk' = c
     /\ tk' = [tk EXCEPT ![t] = [@ EXCEPT !.st = "done", !.endcp = iv.cp]]
     /\ busy' = [busy EXCEPT ![tk[t].w] = 0]
     /\ tot' = [tot EXCEPT !.work = @ + iv.len, !.endn = @ + 1, !.tinf = IF t = 1 THEN iv.cp ELSE @]
     /\ Step("end", t, tk[t].w, c, 0)

DNext ==
  \/ \E t \in Tasks, d \in {1, 2} : Create(t, d) \/ End(t, d)
  \/ \E t \in Tasks : EnterWait(t, 1) \/ EnterOther(t, 2)
  \/ \E t \in Tasks, w \in Wk : StartTask(t, w) \/ RetCreate(t, w) \/ RetWait(t, w) \/ RetOther(t, w)
DSpec == DInit /\ [][DNext]_dvars

\* exhaustive exploration ignores the history (it only names the path)
NoHist == <<clk, tk, busy, tot>>
Finished == tk[1].st = "done"
\* sanity of the reference semantics: the critical path never exceeds the work; every interval is counted once
TinfLeWork == Finished => tot.tinf <= tot.work /\ tot.tinf > 0
Counts == Finished => /\ tot.endn = Cardinality({t \in Tasks : tk[t].st = "done"})
                      /\ tot.e_end = tot.create /\ tot.e_wait_cont = tot.wait
Emit == Finished => PrintT(<<"CASE", ToJson([steps |-> hist, tot |-> tot])>>)
=============================================================================
