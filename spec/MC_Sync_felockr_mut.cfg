SPECIFICATION MSpec
CONSTANTS MUT <- MutFeNoSignal
 NW = 2
 MaxD = 4
 MaxS = 3
 MaxTag = 3
 MaxObj = 2
 MaxL = 3
 MaxQ = 5
 NKeys = 2
 SCN = "felockr"
 NT = 3
 K = 1
 ND = 1
 BCAST = 0
INVARIANT OK
INVARIANT ExactlyOnePlace
INVARIANT RunnableSaved
INVARIANT RunOnce
INVARIANT ReapOnce
CHECK_DEADLOCK TRUE
