SPECIFICATION Spec
CONSTANTS Pushers = {"a", "b", "c"}
 NItems = 6
 MUTANT = "none"
 MaxPops = 7
INVARIANT NoDup
INVARIANT NoLoss
INVARIANT NoLossAlways
INVARIANT Acyclic
CHECK_DEADLOCK FALSE
