------------------------------- MODULE Myth -------------------------------
(***************************************************************************)
(* Level-C specification of the MassiveThreads scheduler core:             *)
(* workers, run queues (abstract deques), thread records and stacks,       *)
(* create (child-first / parent-first), finish, join / tryjoin / detach,   *)
(* yield, work stealing, and the context-switch callbacks that run on the  *)
(* next context's stack after the caller's context has been saved.         *)
(*                                                                         *)
(* One action per hook event of the -DMYTH_VERIF build (same names).  The  *)
(* actions take the emitting worker and the logged values as parameters:   *)
(*   - MC_*.tla quantify the parameters existentially (exhaustive design   *)
(*     exploration, TLC);                                                  *)
(*   - MythTrace.tla binds them from a recorded execution (trace           *)
(*     validation).                                                        *)
(* "U*" actions are the user-visible API calls/returns; all other actions  *)
(* are internal linearisation points.                                      *)
(***************************************************************************)
EXTENDS Integers, Sequences, FiniteSets, TLC

CONSTANTS NW,        \* number of workers (ranks 0..NW-1)
          MaxD,      \* descriptor ids 1..MaxD (0 = NULL)
          MaxS,      \* stack ids 1..MaxS
          MaxTag,    \* thread tags 0..MaxTag (tag 0 = main thread)
          MaxObj,    \* ids of synchronisation objects 1..MaxObj
          MaxL,      \* spin-lock ids 1..MaxL
          MaxQ,      \* sleep queue / sleep stack ids 1..MaxQ
          NKeys      \* number of thread-specific keys (1024 in the library)

W   == 0..(NW-1)
D   == 0..MaxD
S   == 0..MaxS
Tag == 0..MaxTag
Obj == 0..MaxObj
L   == 0..MaxL
Q   == 0..MaxQ

VARIABLES
  cur,     \* cur[w]  : descriptor running on worker w (0 = scheduler)
  got,     \* got[w]  : thread an idle worker took from a queue and is about to run
  cb,      \* cb[w]   : context-switch callback in progress on w (k = "none" if none)
  runq,    \* runq[w] : run queue, Head = steal end (base), Last = owner end (top)
  th,      \* th[d]   : thread record
  lk,      \* lk[l]   : holder (worker) of spin lock l, -1 if free
  stk,     \* stk[s]  : stack ledger
  freeD,   \* freeD[w]: worker-local free list of records (LIFO, Head = next to hand out)
  freeS,   \* freeS[w]: worker-local free list of default-size stacks
  flS,     \* flS[w][i]: worker-local free list of custom stacks of size class i
  nD, nS, nL, \* number of distinct records / stacks / locks ever seen
  anw,     \* number of workers of the armed run (<= NW)
  tg,      \* tg[t]   : per-tag ghost record (what the user program observed)
  bad,     \* "ok", or the first violated property-level assertion
  \* ---- synchronisation primitives
  mx,      \* mx[m]   : mutex state word = 2 * (threads blocked or about to block) + lock bit
  sq,      \* sq[q]   : sleep queue (FIFO, Head = oldest) or sleep stack (Head = top)
  ob,      \* ob.br[b] barrier count word, ob.jc[j] join-counter word, ob.uc[u] uncond slot,
           \* ob.on[o] once state (0 init, 1 in progress, 2 completed), ob.fe[f] full/empty status
  gh       \* ghosts for the user-visible properties of the primitives

sv == <<mx, sq, ob, gh>>
corevars == <<cur, got, cb, runq, th, lk, stk, freeD, freeS, flS, nD, nS, nL, anw, tg, bad, sv>>

\* ---------------------------------------------------------------- helpers
Last(s)  == s[Len(s)]
Front(s) == SubSeq(s, 1, Len(s) - 1)
SeqSet(s) == {s[i] : i \in 1..Len(s)}
P5(k, x, y, z, v) == [k |-> k, x |-> x, y |-> y, z |-> z, v |-> v]
P(k, x, y, z) == P5(k, x, y, z, 0)
User == P("user", 0, 0, 0)
NoP == P("none", 0, 0, 0)
\* callback in progress: k kind, t thread being switched out, n next context (0 = scheduler),
\* x auxiliary (join target / sleep queue / lock id), s stage, m mutex to release (block callbacks),
\* p program counter of a protocol executed by the worker inside the callback (mutex unlock)
NoCb == [k |-> "none", t |-> 0, n |-> 0, x |-> 0, s |-> 0, m |-> 0, p |-> NoP, kd |-> 0]
Cb(k, t, n, x, s) == [k |-> k, t |-> t, n |-> n, x |-> x, s |-> s, m |-> 0, p |-> NoP, kd |-> 0]
Flag(b) == IF b THEN 1 ELSE 0
Fail(msg) == IF bad = "ok" THEN msg ELSE bad

\* creation flags (harness/mythprog.c)
F_PF == 1  F_DETACH == 2  F_STACK == 4  F_ATTR == 8  F_NULLID == 16
HasFlag(f, b) == (f \div b) % 2 = 1

NoTh == [st |-> "none", jt |-> 0, det |-> FALSE, res |-> 0, saved |-> FALSE,
         pc |-> P("none", 0, 0, 0), tag |-> -1, stk |-> 0, lk |-> 0, fin |-> FALSE,
         rs |-> <<>>,      \* return stack of nested library protocols (continuation pcs)
         wl |-> <<>>]      \* threads collected by a wake-many loop, not yet pushed
NoStk == [st |-> "none", own |-> 0, lo |-> 0, hi |-> 0, kind |-> 0, idx |-> 0]
NoTg == [par |-> -1, d |-> 0, ran |-> 0, reaped |-> 0, endv |-> 0, ended |-> FALSE,
         flags |-> 0, hs |-> "none", cell |-> 0, creq |-> FALSE]

\* model-level calibration mutants (design configurations override this definition; "none" everywhere else)
MUT == "none"
\* thread t is the one whose code worker w is executing (not inside a callback)
Runs(w, t) == cur[w] = t /\ t # 0 /\ cb[w].k = "none" /\ got[w] = 0
At(w, t, k) == Runs(w, t) /\ th[t].pc.k = k
Idle(w) == cur[w] = 0 /\ cb[w].k = "none"
SetPc(t, p) == [th EXCEPT ![t].pc = p]
\* nested protocol: run 'callee' now, continue at 'cont' when it returns
CallPc(t, callee, cont) == [th EXCEPT ![t].pc = callee, ![t].rs = <<cont>> \o @]
\* (a frame "fm1" is the rest of felock_mark_and_signal: after the signal, unlock the mutex)
RetPc(t) == LET r == Head(th[t].rs) IN
            IF r.k = "fm1" THEN [th EXCEPT ![t].pc = P("mu0", r.z, 0, 0), ![t].rs = <<[r EXCEPT !.k = "fm9"]>> \o Tail(@)]
            ELSE [th EXCEPT ![t].pc = r, ![t].rs = Tail(@)]

cur0 == [w \in W |-> 0]
got0 == [w \in W |-> 0]
cb0 == [w \in W |-> NoCb]
runq0 == [w \in W |-> <<>>]
th0 == [d \in D |-> NoTh]
lk0 == [l \in L |-> -1]
stk0 == [s \in S |-> NoStk]
freeD0 == [w \in W |-> <<>>]
freeS0 == [w \in W |-> <<>>]
flS0 == [w \in W |-> [i \in 0..40 |-> <<>>]]
tg0 == [t \in Tag |-> NoTg]
mx0 == [m \in Obj |-> 0]
sq0 == [q \in Q |-> <<>>]
ob0 == [br |-> [o \in Obj |-> 0], jc |-> [o \in Obj |-> [d |-> 0, w |-> 0]], uc |-> [o \in Obj |-> 0],
        on |-> [o \in Obj |-> 0], fe |-> [o \in Obj |-> 0]]
gh0 == [mown |-> [o \in Obj |-> 0],      \* descriptor holding mutex o (user level), 0 = free
        bcall |-> [o \in Obj |-> 0], bret |-> [o \in Obj |-> 0], bser |-> [o \in Obj |-> 0],
        jdec |-> [o \in Obj |-> 0],      \* decrements requested on join counter o
        onrun |-> [o \in Obj |-> 0], ondone |-> [o \in Obj |-> 0],
        ucsig |-> [o \in Obj |-> 0], ucwake |-> [o \in Obj |-> 0],
        \* sleep queue / stack that belongs to each object (learnt at first use, then fixed)
        qmx |-> [o \in Obj |-> 0], qcv |-> [o \in Obj |-> 0], qbr |-> [o \in Obj |-> 0], qjc |-> [o \in Obj |-> 0],
        \* thread-specific data.  Key allocator: lock-free free list over cells 0..NKeys-1
        \* (kfree = head, -1 = empty; knext[k] = next cell, -1 = end, -2 = "in use" marker)
        klock |-> -1,                      \* worker holding the allocator's lock
        kfree |-> 0, knext |-> [k \in 0..(NKeys - 1) |-> IF k = NKeys - 1 THEN -1 ELSE k + 1],
        klive |-> {},                      \* keys handed out and not deleted (user view)
        kdt |-> [k \in 0..(NKeys - 1) |-> 0], \* destructor registered with the key (0 = none)
        kval |-> [d \in D |-> {}],         \* kval[d] = set of <<key, value>> with a non-NULL value
        wcp |-> [v \in W |-> 0],          \* thread held by the peek cache of v's run queue (work-stealing API), 0 = none
        kpend |-> [d \in D |-> {}],        \* destructor calls <<destructor, value>> owed by a terminating thread
        kopt |-> [d \in D |-> {}]]         \* calls that may or may not happen: the key's deletion overlaps the termination
CoreInit ==
  /\ cur = cur0 /\ got = got0 /\ cb = cb0 /\ runq = runq0 /\ th = th0 /\ lk = lk0 /\ stk = stk0
  /\ freeD = freeD0 /\ freeS = freeS0 /\ flS = flS0
  /\ nD = 0 /\ nS = 0 /\ nL = 0 /\ anw = NW
  /\ tg = tg0 /\ bad = "ok"
  /\ mx = mx0 /\ sq = sq0 /\ ob = ob0 /\ gh = gh0
\* back to the initial state (between concatenated executions of a trace file)
CoreReset ==
  /\ cur' = cur0 /\ got' = got0 /\ cb' = cb0 /\ runq' = runq0 /\ th' = th0 /\ lk' = lk0 /\ stk' = stk0
  /\ freeD' = freeD0 /\ freeS' = freeS0 /\ flS' = flS0
  /\ nD' = 0 /\ nS' = 0 /\ nL' = 0 /\ anw' = NW
  /\ tg' = tg0 /\ bad' = bad
  /\ mx' = mx0 /\ sq' = sq0 /\ ob' = ob0 /\ gh' = gh0

\* The main thread (tag 0) runs on worker w0 with record m; every other worker idle.
Arm(n, w0, m) ==
  /\ nD = 0 /\ m = 1 /\ n \in 1..NW /\ w0 \in 0..(n-1) /\ anw' = n
  /\ cur' = [cur EXCEPT ![w0] = m]
  /\ th' = [th EXCEPT ![m] = [NoTh EXCEPT !.st = "ready", !.pc = P("start", 0, 0, 0), !.tag = 0]]
  /\ nD' = 1
  /\ tg' = [tg EXCEPT ![0] = [NoTg EXCEPT !.d = m, !.hs = "main"]]
  /\ UNCHANGED <<got, cb, runq, lk, stk, freeD, freeS, flS, nS, nL, bad, sv>>

\* ------------------------------------------------------------------ queues
\* Abstract deque semantics; what happens next depends on who popped.
\* "switch-out" stages that pop the next thread: fin2, jn2c, blk0 (sync), ucw0 (uncond)
PopStages == {"fin2", "jn2c", "blk0"}
\* yield bookkeeping: y bit 0 = local pop attempted, bit 1 = steal attempted (a steal attempt with a
\* single worker does nothing and leaves no event)
PopDone(y) == y % 2 = 1
StealDone(y) == (y \div 2) % 2 = 1 \/ anw = 1
QPop(w, q, n) ==
  /\ q = w /\ cb[w].k = "none" /\ got[w] = 0
  /\ n = (IF runq[w] = <<>> THEN 0 ELSE Last(runq[w]))
  /\ runq' = [runq EXCEPT ![w] = IF @ = <<>> THEN @ ELSE Front(@)]
  /\ IF cur[w] = 0
     THEN /\ n # 0 /\ got' = [got EXCEPT ![w] = n] /\ th' = th     \* idle scheduler loop (failed pops are not logged)
     ELSE LET t == cur[w] pc == th[t].pc IN
          /\ got' = got
          /\ \/ /\ pc.k \in PopStages
                /\ th' = SetPc(t, [pc EXCEPT !.k = IF pc.k = "fin2" THEN "fin3" ELSE IF pc.k = "jn2c" THEN "jn2d" ELSE "blk1", !.z = n])
             \/ /\ pc.k = "yd0" /\ ~PopDone(pc.y) /\ pc.x # 3   \* yield: local pop not tried yet; steal_only never pops
                /\ (pc.x = 4 => StealDone(pc.y))                    \* steal_first: steal attempted before
                /\ th' = SetPc(t, IF n # 0 THEN P("yd1", pc.x, pc.y, n) ELSE [pc EXCEPT !.y = @ + 1])
  \* the owner invalidates the peek cache only when it removes the last entry of its queue
  /\ gh' = IF Len(runq[w]) = 1 THEN [gh EXCEPT !.wcp[w] = 0] ELSE gh
  /\ UNCHANGED <<cur, cb, lk, stk, freeD, freeS, flS, nD, nS, nL, anw, tg, bad, mx, sq, ob>>

\* steal attempt on victim v's queue (by an idle worker, or by a yielding thread)
QTake(w, v, n) ==
  /\ cb[w].k = "none" /\ got[w] = 0 /\ v \in W
  /\ n = (IF runq[v] = <<>> THEN 0 ELSE Head(runq[v]))
  /\ runq' = [runq EXCEPT ![v] = IF @ = <<>> THEN @ ELSE Tail(@)]
  /\ IF cur[w] = 0
     THEN /\ n # 0 /\ v # w /\ got' = [got EXCEPT ![w] = n] /\ th' = th
     ELSE LET t == cur[w] pc == th[t].pc IN
          /\ got' = got
          /\ v # w /\ pc.k = "yd0" /\ ~StealDone(pc.y) /\ pc.x # 1   \* steal not tried yet; local_only never steals
          /\ (pc.x = 2 => PopDone(pc.y))                              \* local_first: pop tried before
          /\ (pc.x = 4 => ~PopDone(pc.y))
          /\ th' = SetPc(t, IF n # 0 THEN P("yd1", pc.x, pc.y, n) ELSE [pc EXCEPT !.y = @ + 2])
  /\ UNCHANGED <<cur, cb, lk, stk, freeD, freeS, flS, nD, nS, nL, anw, tg, bad, sv>>

\* steal through the work-stealing API with a decision callback: cand is the victim's oldest thread (0 if the
\* queue is empty); it is removed only if the callback accepted it (n = cand), a declined candidate stays
QTakeEx(w, v, cand, n) ==
  /\ cb[w].k = "none" /\ got[w] = 0 /\ v \in W
  /\ cand = (IF runq[v] = <<>> THEN 0 ELSE Head(runq[v]))
  /\ n \in {0, cand}
  /\ runq' = [runq EXCEPT ![v] = IF n = 0 THEN @ ELSE Tail(@)]
  /\ IF cur[w] = 0
     THEN /\ (n = 0 => cand # 0) /\ got' = [got EXCEPT ![w] = n] /\ th' = th           \* idle loop (n = 0: the candidate was declined; logged only if the queue is not empty)
     ELSE LET t == cur[w] pc == th[t].pc IN
          /\ got' = got
          /\ pc.k = "yd0" /\ ~StealDone(pc.y) /\ pc.x # 1
          /\ (pc.x = 2 => PopDone(pc.y)) /\ (pc.x = 4 => ~PopDone(pc.y))
          /\ th' = SetPc(t, IF n # 0 THEN P("yd1", pc.x, pc.y, n) ELSE [pc EXCEPT !.y = @ + 2])
  /\ gh' = IF n # 0 THEN [gh EXCEPT !.wcp[v] = 0] ELSE gh           \* a successful take invalidates the peek cache
  /\ UNCHANGED <<cur, cb, lk, stk, freeD, freeS, flS, nD, nS, nL, anw, tg, bad, mx, sq, ob>>

\* work-stealing API peek: the oldest entry of v's queue as the cache holds it.  The cache is filled from the queue
\* when it is empty; it is invalidated by a successful wsapi take and by the owner popping its last entry -- NOT by
\* the default steal (QTake) nor when the owner pops the cached thread while newer-oldest entries remain, so the
\* answer may be a thread that has left the queue: that is what the code does, and it is only a hint.
QPeek(w, v, n, sz) ==
  /\ cb[w].k = "none" /\ got[w] = 0 /\ v \in W
  /\ IF runq[v] = <<>> THEN n = 0 /\ gh' = gh
     ELSE LET c == IF gh.wcp[v] = 0 THEN Head(runq[v]) ELSE gh.wcp[v] IN n = c /\ gh' = [gh EXCEPT !.wcp[v] = c]
  /\ UNCHANGED <<cur, got, cb, runq, th, lk, stk, freeD, freeS, flS, nD, nS, nL, anw, tg, bad, mx, sq, ob>>

\* owner-side push: (a) create_1 callback pushes the parent, (b) parent-first create pushes the
\* child, (c) a waker pushes a woken thread (sync primitives, stage "wk*")
\* the agent executing library code on worker w: the running thread, or the worker itself
\* while it executes a callback on the next context's stack
InCb(w) == cb[w].k # "none"
APc(w) == IF InCb(w) THEN cb[w].p ELSE th[cur[w]].pc
Agent(w) == got[w] = 0 /\ (InCb(w) \/ cur[w] # 0)
\* wake-up protocols end by returning to their caller
AgentRet(w) == IF InCb(w) THEN th' = th /\ cb' = [cb EXCEPT ![w].p = P("mu9", 0, 0, 0)]
               ELSE th' = RetPc(cur[w]) /\ cb' = cb
AgentSet(w, p) == IF InCb(w) THEN th' = th /\ cb' = [cb EXCEPT ![w].p = p]
                  ELSE th' = SetPc(cur[w], p) /\ cb' = cb

QPush(w, q, d) ==
  /\ q = w /\ d # 0
  /\ \/ /\ cb[w].k = "create" /\ cb[w].t = d /\ th[d].saved      \* (a)
        /\ runq' = [runq EXCEPT ![w] = Append(@, d)]
        /\ cur' = [cur EXCEPT ![w] = cb[w].n]
        /\ cb' = [cb EXCEPT ![w] = NoCb]
        /\ th' = th
     \/ /\ cb[w].k = "none" /\ Runs(w, cur[w]) /\ th[cur[w]].pc.k = "cr3p" /\ th[cur[w]].pc.z = d /\ th[d].saved   \* (b) (its context has been made)
        /\ runq' = [runq EXCEPT ![w] = Append(@, d)]
        /\ th' = SetPc(cur[w], [th[cur[w]].pc EXCEPT !.k = "cr4"])
        /\ UNCHANGED <<cur, cb>>
     \/ /\ Agent(w) /\ cb[w].k \in {"none", "block"} /\ th[d].saved                \* (c) a waker publishes a woken thread
        /\ runq' = [runq EXCEPT ![w] = Append(@, d)] /\ cur' = cur
        /\ LET pc == APc(w) IN
           \/ /\ pc.k \in {"wo2", "us2"} /\ pc.z = d /\ AgentRet(w)
           \/ /\ pc.k = "cs2" /\ pc.z = d /\ ~InCb(w)
              /\ IF pc.y = 1 THEN th' = SetPc(cur[w], [pc EXCEPT !.k = "cs1", !.z = 0]) ELSE th' = RetPc(cur[w])
              /\ cb' = cb
           \/ /\ pc.k = "wm1" /\ ~InCb(w) /\ th[cur[w]].wl # <<>> /\ d = Head(th[cur[w]].wl)
              /\ IF Len(th[cur[w]].wl) = 1
                 THEN th' = [th EXCEPT ![cur[w]].wl = <<>>, ![cur[w]].pc = Head(th[cur[w]].rs), ![cur[w]].rs = Tail(@)]
                 ELSE th' = [th EXCEPT ![cur[w]].wl = Tail(@)]
              /\ cb' = cb
  /\ UNCHANGED <<got, lk, stk, freeD, freeS, flS, nD, nS, nL, anw, tg, bad, sv>>

\* base-side put by the yield callback
QPut(w, q, d) ==
  /\ q = w /\ cb[w].k = "yield" /\ cb[w].t = d /\ cb[w].s = 0 /\ th[d].saved
  /\ runq' = [runq EXCEPT ![w] = <<d>> \o @]
  /\ cb' = [cb EXCEPT ![w].s = 1]
  /\ UNCHANGED <<cur, got, th, lk, stk, freeD, freeS, flS, nD, nS, nL, anw, tg, bad, sv>>

\* every queue event carries top - base, the number of entries the implementation's index arithmetic
\* says are left in queue q after the operation; it must be the length of the abstract queue
QLenIs(q, n) == q \in W /\ Len(runq'[q]) = n

\* idle worker starts / resumes the thread it obtained
SchedRun(w, n) ==
  /\ Idle(w) /\ got[w] = n /\ n # 0
  /\ th[n].saved /\ th[n].st = "ready"
  /\ cur' = [cur EXCEPT ![w] = n] /\ got' = [got EXCEPT ![w] = 0]
  /\ th' = [th EXCEPT ![n].saved = FALSE]
  /\ UNCHANGED <<cb, runq, lk, stk, freeD, freeS, flS, nD, nS, nL, anw, tg, bad, sv>>

\* ------------------------------------------------------------- spin locks
SpinAcq(w, l) ==
  /\ lk[l] = -1 /\ lk' = [lk EXCEPT ![l] = w]
  /\ cb[w].k = "none" /\ Runs(w, cur[w])
  /\ LET me == cur[w] pc == th[me].pc IN
     \/ /\ pc.k = "fin0" /\ th[me].lk = l
        /\ th' = SetPc(me, [pc EXCEPT !.k = "fin1"])
        /\ bad' = IF gh.kpend[me] # {} THEN Fail("C11: thread terminated without calling a destructor it owes") ELSE bad
     \/ /\ pc.k \in {"jn0", "tj0", "dt1", "cn0"} /\ th[pc.x].lk = l
        /\ th' = SetPc(me, [pc EXCEPT !.k = CASE pc.k = "jn0" -> "jn1" [] pc.k = "tj0" -> "tj1" [] pc.k = "dt1" -> "dt2" [] OTHER -> "cn1"])
        /\ bad' = bad
     \/ /\ pc.k = "tc0" /\ th[me].lk = l /\ th' = SetPc(me, [pc EXCEPT !.k = "tc1"]) /\ bad' = bad
  /\ UNCHANGED <<cur, got, cb, runq, stk, freeD, freeS, flS, nD, nS, nL, anw, tg, sv>>

\* release; the stage decides what the release completes
SpinRel(w, l) ==
  /\ lk[l] = w /\ lk' = [lk EXCEPT ![l] = -1]
  /\ \/ /\ cb[w].k = "fin" /\ cb[w].x = l /\ cb[w].s \in {2, 3}  \* finisher: after Publish (3), or detached (2)
        /\ (cb[w].s = 2 => th[cb[w].t].det)
        /\ cb' = [cb EXCEPT ![w].s = IF cb[w].s = 3 THEN 5 ELSE 4]
        /\ th' = th /\ tg' = tg
     \/ /\ cb[w].k = "join" /\ th[cb[w].x].lk = l /\ cb[w].s = 1   \* join callback: after JoinSet
        /\ cb' = [cb EXCEPT ![w].s = 2] /\ th' = th /\ tg' = tg
     \/ /\ cb[w].k = "none" /\ Runs(w, cur[w])
        /\ LET me == cur[w] pc == th[me].pc IN
           /\ pc.k \in {"jn2f", "tj2", "dt3", "dt4", "cn1", "tc1"}
           /\ th[pc.x].lk = l
           /\ th' = SetPc(me, [pc EXCEPT !.k = CASE pc.k = "jn2f" -> "jn3"
                                                  [] pc.k = "tj2" -> (IF pc.z = 1 THEN "jn3" ELSE IF pc.v = 0 THEN "tj9" ELSE IF pc.v = 1 THEN "tn1" ELSE "tn3")
                                                  [] pc.k = "dt3" -> "dt5"     \* finished: free the record
                                                  [] pc.k = "dt4" -> "dt9"
                                                  [] pc.k = "cn1" -> "cn9"
                                                  [] pc.k = "tc1" -> "tc2"])
           /\ tg' = IF pc.k = "cn1" THEN [tg EXCEPT ![pc.y].creq = TRUE] ELSE tg
        /\ cb' = cb
  /\ UNCHANGED <<cur, got, runq, stk, freeD, freeS, flS, nD, nS, nL, anw, bad, sv>>

\* ------------------------------------------------------------------ create
UCreateCall(w, ptag, ctag, flags) ==
  /\ \E t \in D : At(w, t, "user") /\ th[t].tag = ptag
        /\ th' = SetPc(t, P("cr0", ctag, flags, 0))
  /\ tg[ctag].hs = "none"
  /\ tg' = [tg EXCEPT ![ctag] = [NoTg EXCEPT !.par = ptag, !.flags = flags, !.hs = "creating"]]
  /\ UNCHANGED <<cur, got, cb, runq, lk, stk, freeD, freeS, flS, nD, nS, nL, anw, bad, sv>>

\* record allocation: reuse the head of this worker's free list; a fresh record only when it is empty
InSeq(x, q) == \E i \in 1..Len(q) : q[i] = x
Without(q, x) == LET i == CHOOSE j \in 1..Len(q) : q[j] = x IN SubSeq(q, 1, i - 1) \o SubSeq(q, i + 1, Len(q))
DescAlloc(w, rank, c, l, fresh) ==
  /\ rank = w /\ c # 0
  /\ \E t \in D : At(w, t, "cr0") /\ th' = [th EXCEPT ![t].pc = [@ EXCEPT !.k = "cr1", !.z = c],
                                                     ![c] = [NoTh EXCEPT !.st = "alloc", !.lk = l]]
  /\ IF freeD[w] # <<>>
     THEN /\ fresh = 0 /\ InSeq(c, freeD[w]) /\ l = th[c].lk /\ th[c].st = "free"     \* any record of the worker's free list (no order is required)
          /\ freeD' = [freeD EXCEPT ![w] = Without(@, c)] /\ UNCHANGED <<nD, nL>>
     ELSE /\ fresh = 1 /\ c = nD + 1 /\ l = nL + 1
          /\ nD' = nD + 1 /\ nL' = nL + 1 /\ freeD' = freeD
  /\ gh' = [gh EXCEPT !.kval[c] = {}, !.kpend[c] = {}, !.kopt[c] = {}]      \* a new thread starts with no thread-specific values
  /\ UNCHANGED <<cur, got, cb, runq, lk, stk, freeS, flS, nS, anw, tg, bad, mx, sq, ob>>

\* stack allocation. kind 0: default size from the free list, 1: default size fresh,
\* 2: custom size (size class idx) from the per-class lists
Overlaps(lo, hi) == \E s \in S : stk[s].st = "live" /\ lo < stk[s].hi /\ stk[s].lo < hi
StackAlloc(w, rank, s, lo, hi, kind, idx) ==
  /\ rank = w /\ s # 0 /\ lo < hi
  /\ \E t \in D : At(w, t, "cr1")
        /\ LET fl == th[t].pc.y
               custom == HasFlag(fl, F_PF) \/ HasFlag(fl, F_DETACH) \/ HasFlag(fl, F_STACK) \/ HasFlag(fl, F_ATTR) IN
           /\ (kind = 2) = custom
           /\ th' = [th EXCEPT ![t].pc = [@ EXCEPT !.k = "cr2"], ![th[t].pc.z].stk = s]
  /\ CASE kind = 0 -> freeS[w] # <<>> /\ InSeq(s, freeS[w]) /\ freeS' = [freeS EXCEPT ![w] = Without(@, s)] /\ UNCHANGED <<flS, nS>>
       [] kind = 1 -> freeS[w] = <<>> /\ s = nS + 1 /\ nS' = nS + 1 /\ UNCHANGED <<freeS, flS>>
       [] kind = 2 -> /\ idx \in 0..40
                      /\ IF flS[w][idx] # <<>>
                         THEN InSeq(s, flS[w][idx]) /\ flS' = [flS EXCEPT ![w][idx] = Without(@, s)] /\ nS' = nS
                         ELSE s = nS + 1 /\ nS' = nS + 1 /\ flS' = flS
                      /\ freeS' = freeS
  /\ stk[s].st \in {"none", "free"}
  /\ (stk[s].st = "free" => stk[s].lo = lo)     \* a recycled block keeps its base; the usable size may differ within the class
  /\ stk' = [stk EXCEPT ![s] = [st |-> "live", own |-> 0, lo |-> lo, hi |-> hi, kind |-> kind, idx |-> idx]]
  /\ bad' = IF Overlaps(lo, hi) THEN Fail("C12: stack handed out overlaps a live stack") ELSE bad
  /\ UNCHANGED <<cur, got, cb, runq, lk, freeD, nD, nL, anw, tg, sv>>

\* child-first: about to save the parent's context and run the child on its new stack
\* the initial context of the new thread has been written (kind 0: empty context entered through a callback,
\* kind 1: context that jumps to the thread's entry function); only from now on may the thread be entered
\* ok = what the context holds at that moment: its stack pointer lies just below the top of the thread's stack and
\* (kind 1) points to the address of the entry function
MkCtx(w, c, kind, ok) ==
  /\ \E p \in D : At(w, p, "cr2") /\ th[p].pc.z = c /\ kind = Flag(HasFlag(th[p].pc.y, F_PF))
        /\ th' = [th EXCEPT ![p].pc = [@ EXCEPT !.k = "cr2m"], ![c].saved = (kind = 1)]
  /\ bad' = IF ok # 1 THEN Fail("C03: the initial context of a new thread does not point into its stack / at its entry function") ELSE bad
  /\ UNCHANGED <<cur, got, cb, runq, lk, stk, freeD, freeS, flS, nD, nS, nL, anw, tg, sv>>

CreateCF(w, p, c, s, det, cds) ==
  /\ At(w, p, "cr2m") /\ th[p].pc.z = c /\ th[c].stk = s /\ ~HasFlag(th[p].pc.y, F_PF)
  /\ det = Flag(HasFlag(th[p].pc.y, F_DETACH)) /\ cds = 0
  /\ th' = [th EXCEPT ![p].pc = [@ EXCEPT !.k = "cr3"],
                      ![c] = [@ EXCEPT !.st = "ready", !.tag = th[p].pc.x, !.pc = P("start", 0, 0, 0),
                                      !.det = HasFlag(th[p].pc.y, F_DETACH)]]
  /\ stk' = [stk EXCEPT ![s].own = c]
  /\ tg' = [tg EXCEPT ![th[p].pc.x].d = c, ![th[p].pc.x].hs = IF HasFlag(th[p].pc.y, F_DETACH) THEN "detached" ELSE "live"]
  /\ UNCHANGED <<cur, got, cb, runq, lk, freeD, freeS, flS, nD, nS, nL, anw, bad, sv>>

CreatePF(w, p, c, s, det, cds) ==
  /\ At(w, p, "cr2m") /\ th[p].pc.z = c /\ th[c].stk = s /\ HasFlag(th[p].pc.y, F_PF)
  /\ det = Flag(HasFlag(th[p].pc.y, F_DETACH)) /\ cds = 0
  /\ th' = [th EXCEPT ![p].pc = [@ EXCEPT !.k = "cr3p"],
                      ![c] = [@ EXCEPT !.st = "ready", !.tag = th[p].pc.x, !.pc = P("entry", 0, 0, 0),
                                      !.det = HasFlag(th[p].pc.y, F_DETACH)]]
  /\ stk' = [stk EXCEPT ![s].own = c]
  /\ tg' = [tg EXCEPT ![th[p].pc.x].d = c, ![th[p].pc.x].hs = IF HasFlag(th[p].pc.y, F_DETACH) THEN "detached" ELSE "live"]
  /\ UNCHANGED <<cur, got, cb, runq, lk, freeD, freeS, flS, nD, nS, nL, anw, bad, sv>>

UCreateRet(w, ptag, ctag) ==
  /\ \E t \in D : At(w, t, "cr4") /\ th[t].tag = ptag
        /\ ctag = th[t].pc.x
        /\ th' = SetPc(t, User)
  /\ UNCHANGED <<cur, got, cb, runq, lk, stk, freeD, freeS, flS, nD, nS, nL, anw, tg, bad, sv>>

\* ---------------------------------------------------- callbacks: enter / exit
\* kinds: 1 create_1, 2 entry_point_1 (next thread), 3 entry_point_2 (scheduler),
\*        4 join_2 (next thread), 5 join_3 (scheduler), 6 yield_ex_1,
\*        8 block_on_queue_cb, 9 block_on_stack_cb, 10 uncond_wait_cb
CbEnter(w, kind, align) ==
  /\ cb[w].k = "none" /\ got[w] = 0
  /\ \E t \in D : Runs(w, t) /\
     LET pc == th[t].pc IN
     \/ /\ kind = 1 /\ pc.k = "cr3"
        /\ cb' = [cb EXCEPT ![w] = Cb("create", t, pc.z, 0, 0)]
        /\ th' = [th EXCEPT ![t].saved = TRUE, ![t].pc = [pc EXCEPT !.k = "cr4"]]
     \/ /\ kind \in {2, 3} /\ pc.k = "fin3" /\ (kind = 2) = (pc.z # 0)
        /\ cb' = [cb EXCEPT ![w] = Cb("fin", t, pc.z, th[t].lk, 0)]
        /\ th' = SetPc(t, P("dead", 0, 0, 0))
     \/ /\ kind \in {4, 5} /\ pc.k = "jn2d" /\ (kind = 4) = (pc.z # 0)
        /\ cb' = [cb EXCEPT ![w] = Cb("join", t, pc.z, pc.x, 0)]
        /\ th' = [th EXCEPT ![t].saved = TRUE, ![t].pc = P("jn3", pc.x, pc.y, 0)]
     \/ /\ kind = 6 /\ pc.k = "yd1"
        /\ cb' = [cb EXCEPT ![w] = Cb("yield", t, pc.z, 0, 0)]
        /\ th' = [th EXCEPT ![t].saved = TRUE, ![t].pc = P("yd9", 0, 0, 0)]
     \/ /\ kind \in {8, 9, 10} /\ pc.k = "blk1" /\ pc.v = kind     \* block on sleep queue / sleep stack / uncond
        /\ cb' = [cb EXCEPT ![w] = [Cb("block", t, pc.z, pc.x, 0) EXCEPT !.m = pc.y, !.kd = kind]]
        /\ th' = [th EXCEPT ![t].saved = TRUE, ![t].pc = Head(th[t].rs), ![t].rs = Tail(@)]
  /\ bad' = IF align # 0 THEN Fail("C03: callback entered with misaligned stack") ELSE bad
  /\ UNCHANGED <<cur, got, runq, lk, stk, freeD, freeS, flS, nD, nS, nL, anw, tg, sv>>

\* the callback returns and the worker jumps into the next context
CbExit(w) ==
  /\ \/ cb[w].k = "fin" /\ cb[w].s \in {5, 6}
     \/ cb[w].k = "join" /\ cb[w].s = 2
     \/ cb[w].k = "yield" /\ cb[w].s = 1
     \/ cb[w].k = "block" /\ cb[w].s = 1 /\ (cb[w].p.k \in {"none", "mu9"})
  /\ LET n == cb[w].n IN
     /\ n # 0 => th[n].saved /\ th[n].st = "ready"
     /\ cur' = [cur EXCEPT ![w] = n]
     /\ th' = IF n # 0 THEN [th EXCEPT ![n].saved = FALSE] ELSE th
  /\ cb' = [cb EXCEPT ![w] = NoCb]
  /\ UNCHANGED <<got, runq, lk, stk, freeD, freeS, flS, nD, nS, nL, anw, tg, bad, sv>>

\* ------------------------------------------------------- thread start / end
ThreadEntry(w, align) ==      \* first instruction of a parent-first thread
  /\ \E t \in D : At(w, t, "entry") /\ th' = SetPc(t, P("start", 0, 0, 0))
  /\ bad' = IF align # 0 THEN Fail("C03: thread entered with misaligned stack") ELSE bad
  /\ UNCHANGED <<cur, got, cb, runq, lk, stk, freeD, freeS, flS, nD, nS, nL, anw, tg, sv>>

UBodyStart(w, tag, tok) ==
  /\ \E t \in D : At(w, t, "start") /\ th[t].tag = tag /\ th' = SetPc(t, User)
  /\ tg' = [tg EXCEPT ![tag].ran = @ + 1]
  /\ bad' = IF tg[tag].ran # 0 THEN Fail("C01: start function invoked twice")
            ELSE IF tag # 0 /\ tok # 7700 + tag THEN Fail("C01: start function got a wrong argument")
            ELSE bad
  /\ UNCHANGED <<cur, got, cb, runq, lk, stk, freeD, freeS, flS, nD, nS, nL, anw, sv>>

\* the start function returns v (kind 0) or calls the exit routine with v (kind 1)
\* keys whose deletion is in flight (called, not yet returned): a thread terminating meanwhile may or may not
\* run their destructors (either order of the two operations is a legal linearisation)
\* a thread between the end of its body and the locking of its record (possibly inside a destructor that yields)
Finning(d) == th[d].pc.k = "fin0" \/ \E i \in DOMAIN th[d].rs : th[d].rs[i].k = "fin0"
Deleting == {th[u].pc.x : u \in {x \in D : th[x].pc.k \in {"kd00", "kd0", "kd1"}}}
Owed(t) == {<<gh.kdt[p[1]], p[2]>> : p \in {q \in gh.kval[t] : q[1] \in gh.klive \ Deleting /\ gh.kdt[q[1]] # 0}}
Opt(t)  == {<<gh.kdt[p[1]], p[2]>> : p \in {q \in gh.kval[t] : q[1] \in gh.klive \cap Deleting /\ gh.kdt[q[1]] # 0}}
PairsOf(d, k) == {<<gh.kdt[k], p[2]>> : p \in {q \in gh.kval[d] : q[1] = k}}
UBodyEnd(w, tag, v, kind) ==
  /\ tag # 0
  /\ \E t \in D : At(w, t, "user") /\ th[t].tag = tag
        /\ th' = [th EXCEPT ![t].pc = P("fin0", v, 0, 0), ![t].res = v]
        /\ gh' = [gh EXCEPT !.kpend[t] = Owed(t), !.kopt[t] = Opt(t)]
  /\ tg' = [tg EXCEPT ![tag].endv = v, ![tag].ended = TRUE, ![tag].cell = 5000 + tag]
  /\ UNCHANGED <<cur, got, cb, runq, lk, stk, freeD, freeS, flS, nD, nS, nL, anw, bad, mx, sq, ob>>

\* a thread acting on a cancellation request terminates like one calling the exit routine with CANCELED (-1)
Cancelled(w, t) ==
  /\ At(w, t, "tc2") /\ tg[th[t].tag].creq
  /\ th' = [th EXCEPT ![t].pc = P("fin0", -1, 0, 0), ![t].res = -1]
  /\ gh' = [gh EXCEPT !.kpend[t] = Owed(t), !.kopt[t] = Opt(t)]
  /\ tg' = [tg EXCEPT ![th[t].tag].endv = -1, ![th[t].tag].ended = TRUE, ![th[t].tag].cell = 0]
  /\ UNCHANGED <<cur, got, cb, runq, lk, stk, freeD, freeS, flS, nD, nS, nL, anw, bad, mx, sq, ob>>

\* finisher, under its own record lock, looks for a registered joiner
FinWaiter(w, t, j) ==
  /\ At(w, t, "fin1") /\ lk[th[t].lk] = w /\ j = th[t].jt
  /\ IF j # 0
     THEN /\ th[j].st = "blocked"
          /\ th' = [th EXCEPT ![j].st = "ready", ![t].pc = [@ EXCEPT !.k = "fin3", !.z = j]]
     ELSE th' = SetPc(t, [th[t].pc EXCEPT !.k = "fin2"])
  /\ UNCHANGED <<cur, got, cb, runq, lk, stk, freeD, freeS, flS, nD, nS, nL, anw, tg, bad, sv>>

\* (in the callback, i.e. on the next context's stack) the finished thread's stack is released
StackFree(w, rank, s, kind, idx) ==
  /\ rank = w /\ cb[w].k = "fin" /\ cb[w].s = 0 /\ s = th[cb[w].t].stk /\ s # 0
  /\ stk[s].st = "live" /\ stk[s].own = cb[w].t /\ stk[s].kind \in (IF kind = 0 THEN {0, 1} ELSE {2}) /\ stk[s].idx = idx
  /\ stk' = [stk EXCEPT ![s].st = "free", ![s].own = 0]
  /\ IF kind = 0 THEN freeS' = [freeS EXCEPT ![w] = <<s>> \o @] /\ flS' = flS
                 ELSE flS' = [flS EXCEPT ![w][idx] = <<s>> \o @] /\ freeS' = freeS
  /\ cb' = [cb EXCEPT ![w].s = 1]
  /\ UNCHANGED <<cur, got, runq, th, lk, freeD, nD, nS, nL, anw, tg, bad, sv>>

FinDet(w, t, det) ==
  /\ cb[w].k = "fin" /\ cb[w].t = t /\ cb[w].s = 1 /\ lk[th[t].lk] = w
  /\ det = Flag(th[t].det)
  /\ cb' = [cb EXCEPT ![w].s = 2]
  /\ UNCHANGED <<cur, got, runq, th, lk, stk, freeD, freeS, flS, nD, nS, nL, anw, tg, bad, sv>>

\* the result becomes visible to joiners (status FREE_READY2), still under the lock
Publish(w, t) ==
  /\ cb[w].k = "fin" /\ cb[w].t = t /\ cb[w].s = 2 /\ ~th[t].det /\ lk[th[t].lk] = w
  /\ th' = [th EXCEPT ![t].fin = TRUE, ![t].st = "fin"]
  /\ cb' = [cb EXCEPT ![w].s = 3]
  /\ UNCHANGED <<cur, got, runq, lk, stk, freeD, freeS, flS, nD, nS, nL, anw, tg, bad, sv>>

\* a record goes back to the executing worker's free list:
\*  (a) finisher of a detached thread, (b) joiner after reading the result, (c) detach of a finished thread
DescFree(w, rank, d) ==
  /\ rank = w /\ d # 0 /\ th[d].st \in {"fin", "ready"}
  /\ \/ /\ cb[w].k = "fin" /\ cb[w].t = d /\ cb[w].s = 4 /\ th[d].det
        /\ cb' = [cb EXCEPT ![w].s = 6]
        /\ th' = [th EXCEPT ![d].st = "free"]
        /\ tg' = [tg EXCEPT ![th[d].tag].reaped = @ + 1]
     \/ /\ cb[w].k = "none" /\ Runs(w, cur[w]) /\ cb' = cb
        /\ LET me == cur[w] pc == th[me].pc IN
           /\ pc.k \in {"jn4", "dt5"} /\ pc.x = d /\ th[d].fin
           /\ (pc.k = "jn4" => lk[th[d].lk] = -1)   \* (detach's unlocked fast path may overtake the finisher's unlock)
           /\ th' = [th EXCEPT ![d].st = "free", ![me].pc = [pc EXCEPT !.k = IF pc.k = "jn4" THEN "jn5" ELSE "dt9"]]
           /\ tg' = [tg EXCEPT ![th[d].tag].reaped = @ + 1]
  /\ freeD' = [freeD EXCEPT ![w] = <<d>> \o @]
  /\ bad' = IF tg[th[d].tag].reaped # 0 THEN Fail("C13: thread reaped twice") ELSE bad
  /\ UNCHANGED <<cur, got, runq, lk, stk, freeS, flS, nD, nS, nL, anw, sv>>

\* -------------------------------------------------------------------- join
UJoinCall(w, tag, ctag) ==
  /\ \E t \in D : At(w, t, "user") /\ th[t].tag = tag
        /\ tg[ctag].hs = "live" /\ tg[ctag].d # 0
        /\ th' = SetPc(t, P("jn0", tg[ctag].d, ctag, 0))
  /\ tg' = [tg EXCEPT ![ctag].hs = "joining"]
  /\ UNCHANGED <<cur, got, cb, runq, lk, stk, freeD, freeS, flS, nD, nS, nL, anw, bad, sv>>

JoinChk(w, j, t, fin) ==
  /\ At(w, j, "jn1") /\ th[j].pc.x = t /\ lk[th[t].lk] = w
  /\ fin = Flag(th[t].fin)
  /\ th' = SetPc(j, [th[j].pc EXCEPT !.k = IF fin = 1 THEN "jn2f" ELSE "jn2b"])
  /\ UNCHANGED <<cur, got, cb, runq, lk, stk, freeD, freeS, flS, nD, nS, nL, anw, tg, bad, sv>>

SetBlocked(w, j) ==
  /\ At(w, j, "jn2b")
  /\ th' = [th EXCEPT ![j].st = "blocked", ![j].pc = [@ EXCEPT !.k = "jn2c"]]
  /\ UNCHANGED <<cur, got, cb, runq, lk, stk, freeD, freeS, flS, nD, nS, nL, anw, tg, bad, sv>>

\* in the join callback: the joiner (context already saved) registers itself with the target
JoinSet(w, t, j) ==
  /\ cb[w].k = "join" /\ cb[w].t = j /\ cb[w].x = t /\ cb[w].s = 0
  /\ th[j].saved /\ lk[th[t].lk] = w /\ th[t].jt = 0 /\ ~th[t].fin
  /\ th' = [th EXCEPT ![t].jt = j]
  /\ cb' = [cb EXCEPT ![w].s = 1]
  /\ UNCHANGED <<cur, got, runq, lk, stk, freeD, freeS, flS, nD, nS, nL, anw, tg, bad, sv>>

\* the joiner reads the result; only after the target has published it
JoinReap(w, t, v) ==
  /\ \E j \in D : At(w, j, "jn3") /\ th[j].pc.x = t
        /\ th[t].fin
        /\ th' = SetPc(j, [th[j].pc EXCEPT !.k = "jn4", !.z = v])
  /\ bad' = IF ~tg[th[t].tag].ended THEN Fail("C01: join read a result before the function ended")
            ELSE IF v # tg[th[t].tag].endv THEN Fail("C01: join read a wrong result") ELSE bad
  /\ UNCHANGED <<cur, got, cb, runq, lk, stk, freeD, freeS, flS, nD, nS, nL, anw, tg, sv>>

UJoinRet(w, tag, ctag, v, cell) ==
  /\ \E t \in D : At(w, t, "jn5") /\ th[t].tag = tag /\ th[t].pc.y = ctag /\ th[t].pc.z = v
        /\ th' = SetPc(t, User)
  /\ tg' = [tg EXCEPT ![ctag].hs = "reaped"]
  /\ bad' = IF ~tg[ctag].ended THEN Fail("C01: join returned before the thread ended")
            ELSE IF v # tg[ctag].endv THEN Fail("C01: join returned a wrong value")
            ELSE IF cell # tg[ctag].cell THEN Fail("C01: a write of the joined thread is not visible to the joiner")
            ELSE bad
  /\ UNCHANGED <<cur, got, cb, runq, lk, stk, freeD, freeS, flS, nD, nS, nL, anw, sv>>

\* ----------------------------------------------------------------- tryjoin
UTryJoinCall(w, tag, ctag) ==
  /\ \E t \in D : At(w, t, "user") /\ th[t].tag = tag
        /\ tg[ctag].hs = "live" /\ tg[ctag].d # 0
        /\ th' = SetPc(t, P("tj0", tg[ctag].d, ctag, 0))
  /\ UNCHANGED <<cur, got, cb, runq, lk, stk, freeD, freeS, flS, nD, nS, nL, anw, tg, bad, sv>>

TryJoinChk(w, j, t, fin) ==
  /\ At(w, j, "tj1") /\ th[j].pc.x = t /\ lk[th[t].lk] = w
  /\ fin = Flag(th[t].fin)
  /\ th' = SetPc(j, [th[j].pc EXCEPT !.k = "tj2", !.z = fin])
  /\ UNCHANGED <<cur, got, cb, runq, lk, stk, freeD, freeS, flS, nD, nS, nL, anw, tg, bad, sv>>

UTryJoinRet(w, tag, ctag, rc, v, cell) ==
  /\ \E t \in D : Runs(w, t) /\ th[t].tag = tag /\ th[t].pc.y = ctag
        /\ \/ /\ th[t].pc.k = "tj9" /\ rc # 0 /\ tg' = tg /\ bad' = bad
           \/ /\ th[t].pc.k = "jn5" /\ rc = 0 /\ th[t].pc.z = v
              /\ tg' = [tg EXCEPT ![ctag].hs = "reaped"]
              /\ bad' = IF ~tg[ctag].ended \/ v # tg[ctag].endv THEN Fail("C13: tryjoin succeeded with a wrong value")
                        ELSE IF cell # tg[ctag].cell THEN Fail("C01: a write of the joined thread is not visible to the joiner")
                        ELSE bad
        /\ th' = SetPc(t, User)
  /\ UNCHANGED <<cur, got, cb, runq, lk, stk, freeD, freeS, flS, nD, nS, nL, anw, sv>>

\* ------------------------------------------------------------------ detach
UDetachCall(w, tag, ctag) ==
  /\ \E t \in D : At(w, t, "user") /\ th[t].tag = tag
        /\ tg[ctag].hs = "live" /\ tg[ctag].d # 0
        /\ th' = SetPc(t, P("dt0", tg[ctag].d, ctag, 0))
  /\ tg' = [tg EXCEPT ![ctag].hs = "detached"]
  /\ UNCHANGED <<cur, got, cb, runq, lk, stk, freeD, freeS, flS, nD, nS, nL, anw, bad, sv>>

\* unlocked look at the status: already published => just free the record
DetachQuick(w, t, f) ==
  /\ \E me \in D : At(w, me, "dt0") /\ th[me].pc.x = t
        /\ f = Flag(th[t].fin)
        /\ th' = SetPc(me, [th[me].pc EXCEPT !.k = IF f = 1 THEN "dt5" ELSE "dt1"])
  /\ UNCHANGED <<cur, got, cb, runq, lk, stk, freeD, freeS, flS, nD, nS, nL, anw, tg, bad, sv>>

DetachChk(w, t, fin) ==
  /\ \E me \in D : At(w, me, "dt2") /\ th[me].pc.x = t /\ lk[th[t].lk] = w
        /\ fin = Flag(th[t].fin)
        /\ th' = SetPc(me, [th[me].pc EXCEPT !.k = IF fin = 1 THEN "dt3" ELSE "dt3n"])
  /\ UNCHANGED <<cur, got, cb, runq, lk, stk, freeD, freeS, flS, nD, nS, nL, anw, tg, bad, sv>>

SetDetached(w, t) ==
  /\ \E me \in D : At(w, me, "dt3n") /\ th[me].pc.x = t /\ lk[th[t].lk] = w
        /\ th' = [th EXCEPT ![t].det = TRUE, ![me].pc = [@ EXCEPT !.k = "dt4"]]
  /\ UNCHANGED <<cur, got, cb, runq, lk, stk, freeD, freeS, flS, nD, nS, nL, anw, tg, bad, sv>>

UDetachRet(w, tag, ctag) ==
  /\ \E t \in D : At(w, t, "dt9") /\ th[t].tag = tag /\ th[t].pc.y = ctag /\ th' = SetPc(t, User)
  /\ UNCHANGED <<cur, got, cb, runq, lk, stk, freeD, freeS, flS, nD, nS, nL, anw, tg, bad, sv>>

\* ------------------------------------------------------------------- yield
\* opt: 0 half_half, 1 local_only, 2 local_first, 3 steal_only, 4 steal_first
UYieldCall(w, tag, opt) ==
  /\ opt \in 0..4
  /\ \E t \in D : At(w, t, "user") /\ th[t].tag = tag /\ th' = SetPc(t, P("yu0", opt, 0, 0))
  /\ UNCHANGED <<cur, got, cb, runq, lk, stk, freeD, freeS, flS, nD, nS, nL, anw, tg, bad, sv>>

\* entry of the yield routine: called by the user (yu0) or internally by once (onw1, option
\* half_half), nanosleep (ns2, half_half), timedlock / timedjoin (tl3 / tn3, local_first)
YieldCallers == {"yu0", "onw1", "ns2", "tl3", "tn3"}
YieldOptOf(pc) == CASE pc.k = "yu0" -> pc.x [] pc.k \in {"onw1", "ns2"} -> 0 [] OTHER -> 2
YieldCont(pc) == CASE pc.k = "yu0" -> P("yu9", 0, 0, 0)
                   [] pc.k = "onw1" -> [pc EXCEPT !.k = "onw"]
                   [] pc.k = "ns2" -> [pc EXCEPT !.k = "ns1"]
                   [] pc.k = "tl3" -> [pc EXCEPT !.k = "tl1"]
                   [] OTHER -> [pc EXCEPT !.k = "tn1"]
YieldBeg(w, t, opt) ==
  /\ Runs(w, t) /\ th[t].pc.k \in YieldCallers /\ opt = YieldOptOf(th[t].pc)
  /\ th' = CallPc(t, P("yd0", opt, 0, 0), YieldCont(th[t].pc))
  /\ UNCHANGED <<cur, got, cb, runq, lk, stk, freeD, freeS, flS, nD, nS, nL, anw, tg, bad, sv>>

\* the routine returns either after having been switched out and resumed (yd9) or immediately
\* when the attempts prescribed by the option found no other thread (yd0, y = attempts made)
YieldExhausted(opt, y) ==
  CASE opt = 1 -> PopDone(y)
    [] opt = 3 -> StealDone(y)
    [] OTHER -> PopDone(y) /\ StealDone(y)
YieldEnd(w, t) ==
  /\ Runs(w, t)
  /\ \/ th[t].pc.k = "yd9"
     \/ th[t].pc.k = "yd0" /\ YieldExhausted(th[t].pc.x, th[t].pc.y)
  /\ th' = RetPc(t)
  /\ UNCHANGED <<cur, got, cb, runq, lk, stk, freeD, freeS, flS, nD, nS, nL, anw, tg, bad, sv>>

UYieldRet(w, tag) ==
  /\ \E t \in D : At(w, t, "yu9") /\ th[t].tag = tag /\ th' = SetPc(t, User)
  /\ UNCHANGED <<cur, got, cb, runq, lk, stk, freeD, freeS, flS, nD, nS, nL, anw, tg, bad, sv>>

\* C03 probe: the operation `op` was executed with recognisable values in rbx, rbp, r12-r15 and in a stack array;
\* mask = registers found changed afterwards, sbad = number of changed array cells (the thread may have been
\* suspended, run other threads on its worker, and resumed on a different worker in between)
UProbe(w, tag, op, mask, sbad) ==
  /\ \E t \in D : At(w, t, "user") /\ th[t].tag = tag
  /\ bad' = IF mask # 0 THEN Fail("C03: a callee-saved register of the thread changed across a switching operation")
            ELSE IF sbad # 0 THEN Fail("C03: stack contents of the thread changed across a switching operation") ELSE bad
  /\ UNCHANGED <<cur, got, cb, runq, th, lk, stk, freeD, freeS, flS, nD, nS, nL, anw, tg, sv>>

UMainEnd(w) ==
  /\ \E t \in D : At(w, t, "user") /\ th[t].tag = 0 /\ th' = SetPc(t, P("done", 0, 0, 0))
  /\ UNCHANGED <<cur, got, cb, runq, lk, stk, freeD, freeS, flS, nD, nS, nL, anw, tg, bad, sv>>

\* ===================================================== synchronisation primitives
ledger == <<lk, stk, freeD, freeS, flS, nD, nS, nL, anw>>
Pow2(n) == 2 ^ n
ObSet(f, o, v) == [ob EXCEPT ![f][o] = v]
GhSet(f, o, v) == [gh EXCEPT ![f][o] = v]
\* the object o (of kind f) always uses the same sleep queue q
QOk(f, o, q) == q # 0 /\ gh[f][o] \in {0, q}
ThreadOf(w) == cur[w]

\* --------------------------------------------------------------- blocking
\* the running thread is about to give up the worker: it names the sleep queue / stack q
\* (0 for an uncond slot) and, for cond_wait, the mutex m to release after it is enqueued
\* (for uncond: m = -u).  The next context is popped, then the callback runs.
BlockCallers == {"ml2", "cw1", "br4", "jw2", "uw0"}
Block(w, t, q, m) ==
  /\ Runs(w, t) /\ th[t].pc.k \in BlockCallers
  /\ LET pc == th[t].pc IN
     \/ /\ pc.k = "ml2" /\ m = 0 /\ QOk("qmx", pc.x, q)  \* mutex lock: retry the lock when woken
        /\ th' = [th EXCEPT ![t].pc = P5("blk0", q, 0, 0, 8), ![t].rs = <<P("ml0", pc.x, 0, 0)>> \o @]
        /\ gh' = GhSet("qmx", pc.x, q)
     \/ /\ pc.k = "cw1" /\ m = pc.y /\ q = pc.z     \* cond wait: release m in the callback, re-lock when woken
        /\ th' = [th EXCEPT ![t].pc = P5("blk0", q, m, 0, 8),
                            ![t].rs = (IF pc.v = 0 THEN <<P("ml0", m, 0, 0), P("cw9", pc.x, m, 0)>> ELSE <<P("ml0", m, 0, 0)>>) \o @]
        /\ gh' = gh
     \/ /\ pc.k = "br4" /\ m = 0 /\ QOk("qbr", pc.x, q)  \* barrier: sleep stack
        /\ th' = [th EXCEPT ![t].pc = P5("blk0", q, 0, 0, 9), ![t].rs = <<P("br9", pc.x, 0, 0)>> \o @]
        /\ gh' = GhSet("qbr", pc.x, q)
     \/ /\ pc.k = "jw2" /\ m = 0 /\ QOk("qjc", pc.x, q)  \* join counter: re-check when woken
        /\ th' = [th EXCEPT ![t].pc = P5("blk0", q, 0, 0, 8), ![t].rs = <<P("jw0", pc.x, 0, 0)>> \o @]
        /\ gh' = GhSet("qjc", pc.x, q)
     \/ /\ pc.k = "uw0" /\ q = 0 /\ m = -pc.x       \* uncond wait
        /\ th' = [th EXCEPT ![t].pc = P5("blk0", pc.x, 0, 0, 10), ![t].rs = <<P("uw9", pc.x, 0, 0)>> \o @]
        /\ gh' = gh
  /\ UNCHANGED <<cur, got, cb, runq, ledger, tg, bad, mx, sq, ob>>

\* in the callback: the (saved) thread enters the sleep queue ...
SqEnq(w, q, d) ==
  /\ cb[w].k = "block" /\ cb[w].kd = 8 /\ cb[w].s = 0 /\ cb[w].t = d /\ cb[w].x = q /\ th[d].saved
  /\ sq' = [sq EXCEPT ![q] = Append(@, d)]
  /\ cb' = [cb EXCEPT ![w].s = 1, ![w].p = IF cb[w].m # 0 THEN P("mu0", cb[w].m, 0, 0) ELSE NoP]
  /\ UNCHANGED <<cur, got, runq, th, ledger, tg, bad, mx, ob, gh>>
\* ... or the sleep stack
StPush(w, q, d) ==
  /\ cb[w].k = "block" /\ cb[w].kd = 9 /\ cb[w].s = 0 /\ cb[w].t = d /\ cb[w].x = q /\ th[d].saved /\ cb[w].m = 0
  /\ sq' = [sq EXCEPT ![q] = <<d>> \o @]
  /\ cb' = [cb EXCEPT ![w].s = 1]
  /\ UNCHANGED <<cur, got, runq, th, ledger, tg, bad, mx, ob, gh>>

\* dequeue by a waker; what it means depends on the wake-up protocol in progress
SqDeq(w, q, d) ==
  /\ Agent(w)
  /\ d = (IF sq[q] = <<>> THEN 0 ELSE Head(sq[q]))
  /\ sq' = [sq EXCEPT ![q] = IF @ = <<>> THEN @ ELSE Tail(@)]
  /\ LET pc == APc(w) IN
     \/ /\ pc.k = "wo0" /\ pc.x = q                         \* wake exactly one (mutex unlock): spin while empty
        /\ IF d = 0 THEN UNCHANGED <<th, cb>> ELSE AgentSet(w, [pc EXCEPT !.k = "wo1", !.z = d])
     \/ /\ pc.k = "cs1" /\ pc.x = q /\ ~InCb(w)             \* wake if any / wake all (cond signal / broadcast)
        /\ IF d = 0 THEN th' = RetPc(cur[w]) ELSE th' = SetPc(cur[w], [pc EXCEPT !.k = "cs2", !.z = d])
        /\ cb' = cb
     \/ /\ pc.k = "wm0" /\ pc.x = q /\ pc.v = 0 /\ ~InCb(w) /\ pc.y > 0    \* wake exactly n (join counter): spin while empty
        /\ IF d = 0 THEN th' = th
           ELSE th' = [th EXCEPT ![cur[w]].wl = Append(@, d),
                                 ![cur[w]].pc = [pc EXCEPT !.k = IF pc.y = 1 THEN "wm1" ELSE "wm0", !.y = pc.y - 1]]
        /\ cb' = cb
  /\ UNCHANGED <<cur, got, runq, ledger, tg, bad, mx, ob, gh>>

StPop(w, q, d) ==
  /\ Agent(w) /\ ~InCb(w)
  /\ d = (IF sq[q] = <<>> THEN 0 ELSE Head(sq[q]))
  /\ sq' = [sq EXCEPT ![q] = IF @ = <<>> THEN @ ELSE Tail(@)]
  /\ LET pc == APc(w) IN
     /\ pc.k = "wm0" /\ pc.x = q /\ pc.v = 1 /\ pc.y > 0    \* wake exactly n (barrier)
     /\ IF d = 0 THEN th' = th
        ELSE th' = [th EXCEPT ![cur[w]].wl = Append(@, d),
                              ![cur[w]].pc = [pc EXCEPT !.k = IF pc.y = 1 THEN "wm1" ELSE "wm0", !.y = pc.y - 1]]
  /\ UNCHANGED <<cur, got, cb, runq, ledger, tg, bad, mx, ob, gh>>

\* ------------------------------------------------------------------ mutex
\* kind: 0 lock, 1 trylock, 2 unlock
MxLd(w, m, s, kind) ==
  /\ Agent(w) /\ s = mx[m]
  /\ LET pc == APc(w) IN
     /\ pc.x = m
     /\ \/ kind = 0 /\ pc.k = "ml0" /\ AgentSet(w, [pc EXCEPT !.k = "ml1", !.y = s])
        \/ /\ kind = 1 /\ pc.k = "mt0" /\ ~InCb(w) /\ cb' = cb
           /\ IF s % 2 = 1 /\ th[cur[w]].rs # <<>> /\ Head(th[cur[w]].rs).k = "tl"
              THEN \* trylock inside timedlock found the mutex held: back to the timed loop
                   LET f == Head(th[cur[w]].rs) IN
                   th' = [th EXCEPT ![cur[w]].pc = [f EXCEPT !.k = IF f.v = 0 THEN "tl1" ELSE "tl3"], ![cur[w]].rs = Tail(@)]
              ELSE th' = SetPc(cur[w], [pc EXCEPT !.k = "mt1", !.y = s])
        \/ kind = 2 /\ pc.k = "mu0" /\ s % 2 = 1 /\ AgentSet(w, [pc EXCEPT !.k = "mu1", !.y = s])
  /\ UNCHANGED <<cur, got, runq, ledger, tg, bad, sv>>

\* compare-and-swap on the state word: succeeds iff the word still has the value read
MxCas(w, m, exp, new, ok) ==
  /\ Agent(w) /\ ok = Flag(mx[m] = exp)
  /\ mx' = IF ok = 1 THEN [mx EXCEPT ![m] = new] ELSE mx
  /\ LET pc == APc(w) IN
     /\ pc.x = m /\ pc.y = exp
     /\ \/ /\ pc.k = "ml1" /\ exp % 2 = 0 /\ new = exp + 1 /\ ~InCb(w)        \* lock bit clear: take it
           /\ IF ok = 1 THEN th' = RetPc(cur[w]) ELSE th' = SetPc(cur[w], [pc EXCEPT !.k = "ml0"])
           /\ cb' = cb
        \/ /\ pc.k = "ml1" /\ exp % 2 = 1 /\ new = exp + 2 /\ ~InCb(w)        \* held: reserve a seat in the queue
           /\ th' = SetPc(cur[w], [pc EXCEPT !.k = IF ok = 1 THEN "ml2" ELSE "ml0"])
           /\ cb' = cb
        \/ /\ pc.k = "mt1" /\ exp % 2 = 0 /\ new = exp + 1 /\ ~InCb(w)        \* trylock
           /\ IF ok = 1 /\ th[cur[w]].rs # <<>> /\ Head(th[cur[w]].rs).k = "tl"
              THEN th' = [th EXCEPT ![cur[w]].pc = P("tl9", m, 0, 0), ![cur[w]].rs = Tail(@)]     \* timedlock succeeded
              ELSE th' = SetPc(cur[w], [pc EXCEPT !.k = IF ok = 1 THEN "mt9" ELSE "mt0"])
           /\ cb' = cb
        \/ /\ pc.k = "mu1" /\ exp > 1 /\ new = exp - 2                         \* unlock, somebody (will be) queued
           /\ AgentSet(w, [pc EXCEPT !.k = IF ok = 1 THEN "mu2" ELSE "mu0"])
        \/ /\ pc.k = "mu1" /\ exp = 1 /\ new = 0                               \* unlock, nobody waiting
           /\ IF ok = 1 THEN AgentRet(w) ELSE AgentSet(w, [pc EXCEPT !.k = "mu0"])
  /\ UNCHANGED <<cur, got, runq, ledger, tg, bad, sq, ob, gh>>

\* the unlocker starts waking exactly one thread from the mutex's sleep queue
MxWake(w, m, q) ==
  /\ Agent(w) /\ APc(w).k = "mu2" /\ APc(w).x = m /\ QOk("qmx", m, q)
  /\ AgentSet(w, P("wo0", q, m, 0))
  /\ gh' = GhSet("qmx", m, q)
  /\ UNCHANGED <<cur, got, runq, ledger, tg, bad, mx, sq, ob>>

\* after dequeuing the thread to wake and before making it runnable: clear the lock bit
MxClr(w, m) ==
  /\ Agent(w) /\ APc(w).k = "wo1" /\ APc(w).y = m /\ mx[m] % 2 = 1
  /\ mx' = [mx EXCEPT ![m] = @ - 1]
  /\ AgentSet(w, [APc(w) EXCEPT !.k = "wo2"])
  /\ UNCHANGED <<cur, got, runq, ledger, tg, bad, sq, ob, gh>>

ULockCall(w, tag, m) ==
  /\ \E t \in D : At(w, t, "user") /\ th[t].tag = tag
        /\ th' = CallPc(t, P("ml0", m, 0, 0), P("ml9", m, 0, 0))
  /\ UNCHANGED <<cur, got, cb, runq, ledger, tg, bad, sv>>
\* C04: mutual exclusion at the level of the API
ULockRet(w, tag, m) ==
  /\ \E t \in D : At(w, t, "ml9") /\ th[t].tag = tag /\ th[t].pc.x = m
        /\ th' = SetPc(t, User)
        /\ gh' = GhSet("mown", m, t)
  /\ bad' = IF gh.mown[m] # 0 THEN Fail("C04: mutex acquired while another thread holds it") ELSE bad
  /\ UNCHANGED <<cur, got, cb, runq, ledger, tg, mx, sq, ob>>
UTryLockCall(w, tag, m) ==
  /\ \E t \in D : At(w, t, "user") /\ th[t].tag = tag /\ th' = SetPc(t, P("mt0", m, 0, 0))
  /\ UNCHANGED <<cur, got, cb, runq, ledger, tg, bad, sv>>
\* trylock never blocks: it returns busy only from a state in which it saw the lock bit set
UTryLockRet(w, tag, m, rc) ==
  /\ \E t \in D : Runs(w, t) /\ th[t].tag = tag /\ th[t].pc.x = m
        /\ \/ th[t].pc.k = "mt9" /\ rc = 0
           \/ th[t].pc.k = "mt1" /\ th[t].pc.y % 2 = 1 /\ rc # 0
        /\ th' = SetPc(t, User)
        /\ gh' = (IF rc = 0 THEN GhSet("mown", m, t) ELSE gh)
  /\ bad' = IF rc = 0 /\ gh.mown[m] # 0 THEN Fail("C04: mutex acquired (trylock) while another thread holds it") ELSE bad
  /\ UNCHANGED <<cur, got, cb, runq, ledger, tg, mx, sq, ob>>
UUnlockCall(w, tag, m) ==
  /\ \E t \in D : At(w, t, "user") /\ th[t].tag = tag /\ gh.mown[m] = t
        /\ th' = CallPc(t, P("mu0", m, 0, 0), P("mu9", m, 0, 0))
  /\ gh' = GhSet("mown", m, 0)
  /\ UNCHANGED <<cur, got, cb, runq, ledger, tg, bad, mx, sq, ob>>
UUnlockRet(w, tag, m) ==
  /\ \E t \in D : At(w, t, "mu9") /\ th[t].tag = tag /\ th[t].pc.x = m /\ th' = SetPc(t, User)
  /\ UNCHANGED <<cur, got, cb, runq, ledger, tg, bad, sv>>

\* ------------------------------------------------------ condition variable
UCondWaitCall(w, tag, c, m) ==
  /\ \E t \in D : At(w, t, "user") /\ th[t].tag = tag /\ gh.mown[m] = t
        /\ th' = SetPc(t, P("cw0", c, m, 0))
  /\ gh' = GhSet("mown", m, 0)
  /\ UNCHANGED <<cur, got, cb, runq, ledger, tg, bad, mx, sq, ob>>
CvWait(w, c, q, m) ==
  /\ \E t \in D : At(w, t, "cw0") /\ th[t].pc.x = c /\ th[t].pc.y = m
        /\ th' = SetPc(t, P5("cw1", c, m, q, th[t].pc.v))
  /\ QOk("qcv", c, q) /\ gh' = GhSet("qcv", c, q)
  /\ UNCHANGED <<cur, got, cb, runq, ledger, tg, bad, mx, sq, ob>>
\* a woken waiter returns holding the mutex
UCondWaitRet(w, tag, c, m) ==
  /\ \E t \in D : At(w, t, "cw9") /\ th[t].tag = tag /\ th[t].pc.x = c /\ th[t].pc.y = m
        /\ th' = SetPc(t, User)
        /\ gh' = GhSet("mown", m, t)
  /\ bad' = IF gh.mown[m] # 0 THEN Fail("C05: cond_wait returned while another thread holds the mutex") ELSE bad
  /\ UNCHANGED <<cur, got, cb, runq, ledger, tg, mx, sq, ob>>
UCondSignalCall(w, tag, c, bc) ==
  /\ \E t \in D : At(w, t, "user") /\ th[t].tag = tag /\ th' = SetPc(t, P("cs0", c, bc, 0))
  /\ UNCHANGED <<cur, got, cb, runq, ledger, tg, bad, sv>>
CvSignal(w, c, q, bc) ==
  /\ \E t \in D : At(w, t, "cs0") /\ th[t].pc.x = c /\ th[t].pc.y = bc
        /\ th' = IF th[t].pc.v = 0 THEN CallPc(t, P("cs1", q, bc, 0), P("cs9", c, bc, 0))
                 ELSE SetPc(t, P("cs1", q, bc, 0))      \* called from felock: the continuation is already on the stack
  /\ QOk("qcv", c, q) /\ gh' = GhSet("qcv", c, q)
  /\ UNCHANGED <<cur, got, cb, runq, ledger, tg, bad, mx, sq, ob>>
UCondSignalRet(w, tag, c) ==
  /\ \E t \in D : At(w, t, "cs9") /\ th[t].tag = tag /\ th[t].pc.x = c /\ th' = SetPc(t, User)
  /\ UNCHANGED <<cur, got, cb, runq, ledger, tg, bad, sv>>

\* ----------------------------------------------------------------- barrier
UBarrierCall(w, tag, b) ==
  /\ \E t \in D : At(w, t, "user") /\ th[t].tag = tag /\ th' = SetPc(t, P("br0", b, 0, 0))
  /\ gh' = GhSet("bcall", b, gh.bcall[b] + 1)
  /\ UNCHANGED <<cur, got, cb, runq, ledger, tg, bad, mx, sq, ob>>
BrLd(w, b, c, n) ==
  /\ \E t \in D : At(w, t, "br0") /\ th[t].pc.x = b /\ c = ob.br[b] /\ c < n
        /\ th' = SetPc(t, P("br1", b, c, n))
  /\ UNCHANGED <<cur, got, cb, runq, ledger, tg, bad, sv>>
BrCas(w, b, c, ok) ==
  /\ \E t \in D : At(w, t, "br1") /\ th[t].pc.x = b /\ th[t].pc.y = c
        /\ ok = Flag(ob.br[b] = c)
        /\ ob' = (IF ok = 1 THEN ObSet("br", b, c + 1) ELSE ob)
        /\ th' = SetPc(t, [th[t].pc EXCEPT !.k = IF ok = 0 THEN "br0" ELSE IF c = th[t].pc.z - 1 THEN "br2" ELSE "br4"])
  /\ UNCHANGED <<cur, got, cb, runq, ledger, tg, bad, mx, sq, gh>>
\* the last arriver re-opens the barrier for the next round ...
BrReset(w, b) ==
  /\ \E t \in D : At(w, t, "br2") /\ th[t].pc.x = b /\ th' = SetPc(t, [th[t].pc EXCEPT !.k = "br3"])
  /\ ob' = ObSet("br", b, 0)
  /\ UNCHANGED <<cur, got, cb, runq, ledger, tg, bad, mx, sq, gh>>
\* ... and collects exactly c sleepers from the stack before making any of them runnable
BrWake(w, b, q, c) ==
  /\ \E t \in D : At(w, t, "br3") /\ th[t].pc.x = b /\ c = th[t].pc.z - 1
        /\ IF c = 0 THEN th' = SetPc(t, P("br9", b, 1, 0))
           ELSE th' = CallPc(t, P5("wm0", q, c, 0, 1), P("br9", b, 1, 0))
  /\ QOk("qbr", b, q) /\ gh' = GhSet("qbr", b, q)
  /\ UNCHANGED <<cur, got, cb, runq, ledger, tg, bad, mx, sq, ob>>
\* C06: nobody passes round k before all N arrived; one serial thread per round
UBarrierRet(w, tag, b, rc, n) ==
  /\ \E t \in D : At(w, t, "br9") /\ th[t].tag = tag /\ th[t].pc.x = b /\ rc = th[t].pc.y
        /\ th' = SetPc(t, User)
  /\ LET r == gh.bret[b] \div n
         ser == gh.bser[b] + rc IN
     /\ gh' = [gh EXCEPT !.bret[b] = @ + 1, !.bser[b] = ser]
     /\ bad' = IF gh.bcall[b] < (r + 1) * n THEN Fail("C06: a participant passed the barrier before all arrived")
               ELSE IF (gh.bret[b] + 1) % n = 0 /\ ser # r + 1 THEN Fail("C06: not exactly one serial thread in a round")
               ELSE IF ser > r + 1 THEN Fail("C06: more than one serial thread in a round")
               ELSE bad
  /\ UNCHANGED <<cur, got, cb, runq, ledger, tg, mx, sq, ob>>

\* ------------------------------------------------------------ join counter
\* word = waiters * 2^bits + decrements;  bits = number of bits needed to represent n.  The specification (and the
\* events) keep the two fields apart: ob.jc[j] = [d |-> decrements, w |-> waiters]; an implementation whose word
\* arithmetic spills from one field into the other (or loses the upper field for large n) shows up as a wrong field.
MaxInt == 2147483647
CalcBits(n) == IF n >= Pow2(30) THEN 31 ELSE CHOOSE b \in 0..30 : n < Pow2(b) /\ (b = 0 \/ n >= Pow2(b - 1))
MaskOf(b) == IF b >= 31 THEN MaxInt ELSE Pow2(b) - 1
JcWord(d, wt) == [d |-> d, w |-> wt]
JcInit(w, j, n, b, mask) ==
  /\ bad' = IF b # CalcBits(n) \/ mask # MaskOf(b) \/ n > mask
            THEN Fail("C07: join counter packing cannot represent n decrements") ELSE bad
  /\ ob' = ObSet("jc", j, JcWord(0, 0))
  /\ gh' = GhSet("jdec", j, 0)
  /\ UNCHANGED <<cur, got, cb, runq, th, ledger, tg, mx, sq>>
UJcWaitCall(w, tag, j) ==
  /\ \E t \in D : At(w, t, "user") /\ th[t].tag = tag /\ th' = SetPc(t, P("jw0", j, 0, 0))
  /\ UNCHANGED <<cur, got, cb, runq, ledger, tg, bad, sv>>
\* (test programs only) the word is set as if sd decrements had been made while nobody waited
UJcPoke(w, tag, j, sd) ==
  /\ \E t \in D : At(w, t, "user") /\ th[t].tag = tag
  /\ ob.jc[j].w = 0 /\ ob' = ObSet("jc", j, JcWord(sd, 0)) /\ gh' = GhSet("jdec", j, sd)
  /\ UNCHANGED <<cur, got, cb, runq, th, ledger, tg, bad, mx, sq>>
\* kind 0 = wait, 1 = dec; (sd, sw) = the two fields of the word that was read
JcLd(w, j, sd, kind, n, bits, sw) ==
  /\ JcWord(sd, sw) = ob.jc[j] /\ bits = CalcBits(n)
  /\ \E t \in D : Runs(w, t) /\ th[t].pc.x = j
        /\ \/ /\ kind = 0 /\ th[t].pc.k = "jw0"
              /\ th' = SetPc(t, IF sd = n THEN P("jw9", j, 0, 0) ELSE P5("jw1", j, sd, n, sw))
           \/ /\ kind = 1 /\ th[t].pc.k = "jd0" /\ sd < n
              /\ th' = SetPc(t, P5("jd1", j, sd, n, sw))
  /\ UNCHANGED <<cur, got, cb, runq, ledger, tg, bad, sv>>
JcCas(w, j, ed, ew, nd, nw, ok) ==
  /\ ok = Flag(ob.jc[j] = JcWord(ed, ew))
  /\ ob' = IF ok = 1 THEN ObSet("jc", j, JcWord(nd, nw)) ELSE ob
  /\ \E t \in D : Runs(w, t) /\ th[t].pc.x = j /\ th[t].pc.y = ed /\ th[t].pc.v = ew
        /\ LET pc == th[t].pc IN
           \/ /\ pc.k = "jw1" /\ nd = ed /\ nw = ew + 1                 \* announce one more waiter
              /\ th' = SetPc(t, IF ok = 1 THEN P("jw2", j, 0, 0) ELSE P("jw0", j, 0, 0))
           \/ /\ pc.k = "jd1" /\ nd = ed + 1 /\ nw = ew                 \* one more decrement
              /\ th' = SetPc(t, IF ok = 0 THEN P("jd0", j, 0, 0)
                                ELSE IF ed = pc.z - 1 THEN P5("jd2", j, ew, 0, 0)
                                ELSE P("jd9", j, 0, 0))
  /\ UNCHANGED <<cur, got, cb, runq, ledger, tg, bad, mx, sq, gh>>
\* the N-th decrement wakes exactly the waiters recorded in the word it replaced
JcWake(w, j, q, k) ==
  /\ \E t \in D : At(w, t, "jd2") /\ th[t].pc.x = j /\ k = th[t].pc.y
        /\ IF k = 0 THEN th' = SetPc(t, P("jd9", j, 0, 0))
           ELSE th' = CallPc(t, P5("wm0", q, k, 0, 0), P("jd9", j, 0, 0))
  /\ QOk("qjc", j, q) /\ gh' = GhSet("qjc", j, q)
  /\ UNCHANGED <<cur, got, cb, runq, ledger, tg, bad, mx, sq, ob>>
\* C07: a wait returns only after all n decrements have been requested
UJcWaitRet(w, tag, j, n) ==
  /\ \E t \in D : At(w, t, "jw9") /\ th[t].tag = tag /\ th[t].pc.x = j /\ th' = SetPc(t, User)
  /\ bad' = IF gh.jdec[j] < n THEN Fail("C07: join-counter wait returned before the n-th decrement") ELSE bad
  /\ UNCHANGED <<cur, got, cb, runq, ledger, tg, sv>>
UJcDecCall(w, tag, j) ==
  /\ \E t \in D : At(w, t, "user") /\ th[t].tag = tag /\ th' = SetPc(t, P("jd0", j, 0, 0))
  /\ gh' = GhSet("jdec", j, gh.jdec[j] + 1)
  /\ UNCHANGED <<cur, got, cb, runq, ledger, tg, bad, mx, sq, ob>>
UJcDecRet(w, tag, j) ==
  /\ \E t \in D : At(w, t, "jd9") /\ th[t].tag = tag /\ th[t].pc.x = j /\ th' = SetPc(t, User)
  /\ UNCHANGED <<cur, got, cb, runq, ledger, tg, bad, sv>>

\* ------------------------------------------------------------------ uncond
UUcWaitCall(w, tag, u) ==
  /\ \E t \in D : At(w, t, "user") /\ th[t].tag = tag /\ th' = SetPc(t, P("uw0", u, 0, 0))
  /\ UNCHANGED <<cur, got, cb, runq, ledger, tg, bad, sv>>
\* in the callback (context saved): publish the waiter in the slot
\* what the slot holds when the callback is entered (the waiter's context has been saved by then): nothing yet --
\* a waiter that wrote itself into the slot before its context was saved would show here
UcCbLd(w, u, d) ==
  /\ cb[w].k = "block" /\ cb[w].kd = 10 /\ cb[w].s = 0 /\ cb[w].x = u /\ d = ob.uc[u]
  /\ UNCHANGED <<cur, got, cb, runq, th, ledger, tg, bad, sv>>
UcPub(w, u, d) ==
  /\ cb[w].k = "block" /\ cb[w].kd = 10 /\ cb[w].s = 0 /\ cb[w].t = d /\ cb[w].x = u /\ th[d].saved /\ ob.uc[u] = 0
  /\ ob' = ObSet("uc", u, d)
  /\ cb' = [cb EXCEPT ![w].s = 1]
  /\ UNCHANGED <<cur, got, runq, th, ledger, tg, bad, mx, sq, gh>>
\* C08: the waiter resumes only after a signal, once per rendezvous
UUcWaitRet(w, tag, u) ==
  /\ \E t \in D : At(w, t, "uw9") /\ th[t].tag = tag /\ th[t].pc.x = u /\ th' = SetPc(t, User)
  /\ gh' = GhSet("ucwake", u, gh.ucwake[u] + 1)
  /\ bad' = IF gh.ucwake[u] + 1 > gh.ucsig[u] THEN Fail("C08: uncond waiter resumed without a signal") ELSE bad
  /\ UNCHANGED <<cur, got, cb, runq, ledger, tg, mx, sq, ob>>
UUcSignalCall(w, tag, u) ==
  /\ \E t \in D : At(w, t, "user") /\ th[t].tag = tag /\ th' = CallPc(t, P("us0", u, 0, 0), P("us9", u, 0, 0))
  /\ gh' = GhSet("ucsig", u, gh.ucsig[u] + 1)
  /\ UNCHANGED <<cur, got, cb, runq, ledger, tg, bad, mx, sq, ob>>
UcLd(w, u, d) ==
  /\ d = ob.uc[u]
  /\ \E t \in D : At(w, t, "us0") /\ th[t].pc.x = u
        /\ th' = (IF d = 0 THEN th ELSE SetPc(t, P("us1", u, 0, d)))
  /\ UNCHANGED <<cur, got, cb, runq, ledger, tg, bad, sv>>
\* v = what the slot holds right after the clearing store (the event is emitted after it)
UcClr(w, u, v) ==
  /\ \E t \in D : At(w, t, "us1") /\ th[t].pc.x = u /\ th' = SetPc(t, [th[t].pc EXCEPT !.k = "us2"])
  /\ ob' = ObSet("uc", u, 0)
  /\ bad' = IF v # 0 THEN Fail("C08: the slot of the uncondition variable still names a thread after signal cleared it") ELSE bad
  /\ UNCHANGED <<cur, got, cb, runq, ledger, tg, mx, sq, gh>>
\* signal returns only after the waiter has been handed back to the scheduler
UUcSignalRet(w, tag, u) ==
  /\ \E t \in D : At(w, t, "us9") /\ th[t].tag = tag /\ th[t].pc.x = u /\ th' = SetPc(t, User)
  /\ UNCHANGED <<cur, got, cb, runq, ledger, tg, bad, sv>>

\* -------------------------------------------------------------------- once
UOnceCall(w, tag, o) ==
  /\ \E t \in D : At(w, t, "user") /\ th[t].tag = tag /\ th' = SetPc(t, P("on0", o, 0, 0))
  /\ UNCHANGED <<cur, got, cb, runq, ledger, tg, bad, sv>>
OnLd(w, o, s) ==
  /\ s = ob.on[o]
  /\ \E t \in D : Runs(w, t) /\ th[t].pc.x = o
        /\ \/ /\ th[t].pc.k = "on0" /\ th' = SetPc(t, P("on1", o, s, 0))
           \/ /\ (th[t].pc.k = "onw" \/ (th[t].pc.k = "on1" /\ th[t].pc.y # 0))   \* waiting for the winner: yield and look again
              /\ th' = SetPc(t, IF s = 2 THEN P("on9", o, 0, 0) ELSE P("onw1", o, 0, 0))
  /\ UNCHANGED <<cur, got, cb, runq, ledger, tg, bad, sv>>
OnCas(w, o, ok) ==
  /\ \E t \in D : At(w, t, "on1") /\ th[t].pc.x = o /\ th[t].pc.y = 0
        /\ ok = Flag(ob.on[o] = 0 \/ (MUT = "once_completed_wins" /\ ob.on[o] = 2))   \* (calibration mutant: a CAS that finds "completed" counts as won)
        /\ th' = SetPc(t, IF ok = 1 THEN P("on2", o, 0, 0) ELSE P("onw", o, 0, 0))
  /\ ob' = IF ok = 1 THEN ObSet("on", o, 1) ELSE ob
  /\ UNCHANGED <<cur, got, cb, runq, ledger, tg, bad, mx, sq, gh>>
\* the winner runs the init routine: ordinary user code that may call anything
UOnceBody(w, o) ==
  /\ \E t \in D : At(w, t, "on2") /\ th[t].pc.x = o
        /\ th' = CallPc(t, User, P("on3", o, 0, 0))
  /\ gh' = GhSet("onrun", o, gh.onrun[o] + 1)
  /\ bad' = IF gh.onrun[o] # 0 THEN Fail("C14: init routine executed more than once") ELSE bad
  /\ UNCHANGED <<cur, got, cb, runq, ledger, tg, mx, sq, ob>>
UOnceBodyEnd(w, o) ==
  /\ \E t \in D : At(w, t, "user") /\ th[t].rs # <<>> /\ Head(th[t].rs).k = "on3" /\ Head(th[t].rs).x = o
        /\ th' = RetPc(t)
  /\ gh' = GhSet("ondone", o, 1)
  /\ UNCHANGED <<cur, got, cb, runq, ledger, tg, bad, mx, sq, ob>>
OnDone(w, o) ==
  /\ \E t \in D : At(w, t, "on3") /\ th[t].pc.x = o /\ th' = SetPc(t, P("on9", o, 0, 0))
  /\ ob' = ObSet("on", o, 2)
  /\ UNCHANGED <<cur, got, cb, runq, ledger, tg, bad, mx, sq, gh>>
\* C14: nobody returns before the init routine has completed
UOnceRet(w, tag, o) ==
  /\ \E t \in D : At(w, t, "on9") /\ th[t].tag = tag /\ th[t].pc.x = o /\ th' = SetPc(t, User)
  /\ bad' = IF gh.ondone[o] # 1 THEN Fail("C14: once returned before the init routine completed") ELSE bad
  /\ UNCHANGED <<cur, got, cb, runq, ledger, tg, sv>>

\* ------------------------------------------------------------------ felock
\* a full/empty lock is a mutex m, a status word and one condition variable per status value;
\* the events of its mutex and conditions are the ordinary ones
UFeWaitLockCall(w, tag, f, s, m, c) ==
  /\ \E t \in D : At(w, t, "user") /\ th[t].tag = tag
        /\ th' = CallPc(t, P("ml0", m, 0, 0), P5("fw1", f, s, m, c))
  /\ UNCHANGED <<cur, got, cb, runq, ledger, tg, bad, sv>>
\* with the mutex held: look at the status; wait on the condition of the wanted status if it differs
FeChk(w, f, st, want) ==
  /\ st = ob.fe[f]
  /\ \E t \in D : At(w, t, "fw1") /\ th[t].pc.x = f /\ th[t].pc.y = want
        /\ th' = IF st = want THEN SetPc(t, [th[t].pc EXCEPT !.k = "fw9"])
                 ELSE CallPc(t, P5("cw0", th[t].pc.v, th[t].pc.z, 0, 1), th[t].pc)
  /\ UNCHANGED <<cur, got, cb, runq, ledger, tg, bad, sv>>
\* C09: returns only when the status is the wanted one, with the lock held exclusively
UFeWaitLockRet(w, tag, f, s) ==
  /\ \E t \in D : At(w, t, "fw9") /\ th[t].tag = tag /\ th[t].pc.x = f /\ th[t].pc.y = s
        /\ th' = SetPc(t, User)
        /\ gh' = GhSet("mown", th[t].pc.z, t)
        /\ bad' = IF gh.mown[th[t].pc.z] # 0 THEN Fail("C09: wait_and_lock returned while another thread holds the lock")
                  ELSE IF ob.fe[f] # s THEN Fail("C09: wait_and_lock returned with a different status") ELSE bad
  /\ UNCHANGED <<cur, got, cb, runq, ledger, tg, mx, sq, ob>>
UFeMarkCall(w, tag, f, s, m, c) ==
  /\ \E t \in D : At(w, t, "user") /\ th[t].tag = tag /\ gh.mown[m] = t
        /\ th' = SetPc(t, P5("fm0", f, s, m, c))
  /\ gh' = GhSet("mown", m, 0)
  /\ UNCHANGED <<cur, got, cb, runq, ledger, tg, bad, mx, sq, ob>>
\* publish the status, then signal the condition of that status, then unlock
FeMark(w, f, s) ==
  /\ \E t \in D : At(w, t, "fm0") /\ th[t].pc.x = f /\ th[t].pc.y = s
        /\ th' = IF MUT = "fe_nosignal" /\ ob.fe[f] = s       \* calibration mutant: no signal when the status does not change
                 THEN [th EXCEPT ![t].pc = P("mu0", th[t].pc.z, 0, 0), ![t].rs = <<[th[t].pc EXCEPT !.k = "fm9"]>> \o @]
                 ELSE CallPc(t, P5("cs0", th[t].pc.v, 0, 0, 1), [th[t].pc EXCEPT !.k = "fm1"])
  /\ ob' = ObSet("fe", f, s)
  /\ UNCHANGED <<cur, got, cb, runq, ledger, tg, bad, mx, sq, gh>>
UFeMarkRet(w, tag, f, s) ==
  /\ \E t \in D : At(w, t, "fm9") /\ th[t].tag = tag /\ th[t].pc.x = f /\ th[t].pc.y = s /\ th' = SetPc(t, User)
  /\ UNCHANGED <<cur, got, cb, runq, ledger, tg, bad, sv>>

\* ===================================================== thread-specific data
KeyOK(k) == k >= 0 /\ k < NKeys
ValOf(d, k) == IF \E p \in gh.kval[d] : p[1] = k THEN (CHOOSE p \in gh.kval[d] : p[1] = k)[2] ELSE 0
\* ---- key creation: pop a cell from the free list, under the allocator's lock
UKeyCreateCall(w, tag, dt) ==
  /\ \E t \in D : At(w, t, "user") /\ th[t].tag = tag /\ th' = SetPc(t, P("kc00", dt, 0, 0))
  /\ UNCHANGED <<cur, got, cb, runq, ledger, tg, bad, sv>>
KaLock(w) ==
  /\ gh.klock = -1
  /\ \E t \in D : Runs(w, t) /\ th[t].pc.k \in {"kc00", "kd00"}
        /\ th' = SetPc(t, IF th[t].pc.k = "kc00" THEN [th[t].pc EXCEPT !.k = "kc0"]
                          ELSE IF gh.knext[th[t].pc.x] = -2 THEN [th[t].pc EXCEPT !.k = "kd0"]     \* the key is in use: go on
                          ELSE P("kd8", th[t].pc.x, 1, 0))                                          \* not in use: fail
  /\ gh' = [gh EXCEPT !.klock = w]
  /\ UNCHANGED <<cur, got, cb, runq, ledger, tg, bad, mx, sq, ob>>
KaUnlock(w) ==
  /\ gh.klock = w
  /\ \E t \in D : Runs(w, t) /\ th[t].pc.k \in {"kc8", "kd8"}
        /\ th' = SetPc(t, [th[t].pc EXCEPT !.k = IF th[t].pc.k = "kc8" THEN "kc9" ELSE "kd9"])
  /\ gh' = [gh EXCEPT !.klock = -1]
  /\ UNCHANGED <<cur, got, cb, runq, ledger, tg, bad, mx, sq, ob>>
KaLd(w, h) ==
  /\ h = gh.kfree
  /\ \E t \in D : At(w, t, "kc0")
        /\ th' = SetPc(t, IF h = -1 THEN P5("kc8", th[t].pc.x, -1, 0, 0) ELSE [th[t].pc EXCEPT !.k = "kc1", !.y = h])
  \* creation fails only when all keys are in use
  /\ bad' = IF h = -1 /\ Cardinality(gh.klive) < NKeys THEN Fail("C10: key creation failed although keys are available") ELSE bad
  /\ UNCHANGED <<cur, got, cb, runq, ledger, tg, sv>>
KaNext(w, h, nx) ==
  /\ KeyOK(h) /\ nx = gh.knext[h]
  /\ \E t \in D : At(w, t, "kc1") /\ th[t].pc.y = h /\ th' = SetPc(t, [th[t].pc EXCEPT !.k = "kc2", !.z = nx])
  /\ UNCHANGED <<cur, got, cb, runq, ledger, tg, bad, sv>>
\* the CAS compares only the head pointer (the next pointer read earlier may be stale)
KaCas(w, h, nx, ok) ==
  /\ ok = Flag(gh.kfree = h)
  /\ \E t \in D : At(w, t, "kc2") /\ th[t].pc.y = h /\ th[t].pc.z = nx
        /\ th' = SetPc(t, IF ok = 1 THEN [th[t].pc EXCEPT !.k = "kc8"] ELSE P("kc0", th[t].pc.x, 0, 0))
        \* a key that becomes live while a thread is terminating (possible for long when a destructor suspends): what that
        \* thread still holds under the index (values persist by index) may or may not be passed to the new destructor,
        \* depending on whether the termination loop has passed the index already
        /\ gh' = IF ok = 1 THEN [gh EXCEPT !.kfree = nx, !.knext[h] = -2, !.kdt[h] = th[t].pc.x, !.klive = @ \cup {h},
                                          !.kopt = [d \in D |-> IF Finning(d) /\ th[t].pc.x # 0
                                                                 THEN gh.kopt[d] \cup {<<th[t].pc.x, p[2]>> : p \in {q \in gh.kval[d] : q[1] = h}}
                                                                 ELSE gh.kopt[d]]]
                  ELSE gh
  \* C10: keys handed out are pairwise distinct while live
  /\ bad' = IF ok = 1 /\ h \in gh.klive THEN Fail("C10: key creation handed out a key that is still live") ELSE bad
  /\ UNCHANGED <<cur, got, cb, runq, ledger, tg, mx, sq, ob>>
UKeyCreateRet(w, tag, rc, k) ==
  /\ \E t \in D : At(w, t, "kc9") /\ th[t].tag = tag /\ th' = SetPc(t, User)
        /\ (rc = 0) = (th[t].pc.y # -1) /\ (rc = 0 => k = th[t].pc.y)
  /\ bad' = IF rc = 0 /\ ~KeyOK(k) THEN Fail("C10: key creation returned an index outside the valid range")
            ELSE bad
  /\ UNCHANGED <<cur, got, cb, runq, ledger, tg, sv>>
\* ---- key deletion: push the cell back
UKeyDeleteCall(w, tag, k) ==
  /\ \E t \in D : At(w, t, "user") /\ th[t].tag = tag
        /\ th' = SetPc(t, IF KeyOK(k) THEN P("kd00", k, 0, 0) ELSE P("kd9", k, 1, 0))
  \* destructor calls for k still owed by threads that are terminating right now become optional
  /\ gh' = IF KeyOK(k)
           THEN [gh EXCEPT !.kpend = [d \in D |-> IF Finning(d) THEN gh.kpend[d] \ PairsOf(d, k) ELSE gh.kpend[d]],
                           !.kopt  = [d \in D |-> IF Finning(d) THEN gh.kopt[d] \cup (gh.kpend[d] \cap PairsOf(d, k)) ELSE gh.kopt[d]]]
           ELSE gh
  /\ UNCHANGED <<cur, got, cb, runq, ledger, tg, bad, mx, sq, ob>>
KdLd(w, k, h) ==
  /\ h = gh.kfree
  /\ \E t \in D : At(w, t, "kd0") /\ th[t].pc.x = k /\ th' = SetPc(t, [th[t].pc EXCEPT !.k = "kd1", !.z = h])
  /\ gh' = [gh EXCEPT !.knext[k] = h]
  /\ UNCHANGED <<cur, got, cb, runq, ledger, tg, bad, mx, sq, ob>>
KdCas(w, k, h, ok) ==
  /\ ok = Flag(gh.kfree = h)
  /\ \E t \in D : At(w, t, "kd1") /\ th[t].pc.x = k /\ th[t].pc.z = h
        /\ th' = SetPc(t, IF ok = 1 THEN P("kd8", k, 0, 0) ELSE P("kd0", k, 0, 0))
  /\ gh' = IF ok = 1 THEN [gh EXCEPT !.kfree = k, !.klive = @ \ {k}] ELSE gh
  /\ UNCHANGED <<cur, got, cb, runq, ledger, tg, bad, mx, sq, ob>>
UKeyDeleteRet(w, tag, k, rc) ==
  /\ \E t \in D : At(w, t, "kd9") /\ th[t].tag = tag /\ th[t].pc.x = k /\ (rc = 0) = (th[t].pc.y = 0)
        /\ th' = SetPc(t, User)
  /\ UNCHANGED <<cur, got, cb, runq, ledger, tg, bad, sv>>
\* ---- values: private to (thread, key); follow the thread to whichever worker runs it
USetSpecific(w, tag, k, v, rc) ==
  /\ \E t \in D : At(w, t, "user") /\ th[t].tag = tag /\ th' = th
        /\ gh' = IF KeyOK(k) THEN [gh EXCEPT !.kval[t] = {p \in @ : p[1] # k} \cup (IF v = 0 THEN {} ELSE {<<k, v>>})] ELSE gh
  /\ bad' = IF (rc = 0) # KeyOK(k) THEN Fail("C10: setspecific accepted an invalid key index or rejected a valid one") ELSE bad
  /\ UNCHANGED <<cur, got, cb, runq, ledger, tg, mx, sq, ob>>
UGetSpecific(w, tag, k, v) ==
  /\ \E t \in D : At(w, t, "user") /\ th[t].tag = tag
        /\ bad' = IF v # (IF KeyOK(k) THEN ValOf(t, k) ELSE 0)
                  THEN Fail("C10: getspecific returned a value other than the one this thread stored under this key") ELSE bad
  /\ UNCHANGED <<cur, got, cb, runq, th, ledger, tg, sv>>
\* ---- destructors at thread termination
\* a destructor call observed in the terminating thread: it must be one that is owed, exactly once
UDtor(w, tag, dt, v) ==
  /\ \E t \in D : At(w, t, "fin0") /\ th[t].tag = tag
        /\ gh' = [gh EXCEPT !.kpend[t] = @ \ {<<dt, v>>}, !.kopt[t] = IF <<dt, v>> \in gh.kpend[t] THEN @ ELSE @ \ {<<dt, v>>}]
        /\ bad' = IF <<dt, v>> \notin (gh.kpend[t] \cup gh.kopt[t]) /\ ~(v = 0 /\ \E k \in gh.klive : gh.kdt[k] = dt)   \* (a call with NULL for a live key is tolerated)
                  THEN Fail("C11: destructor called with a value it is not owed (wrong value, no destructor, deleted key, NULL, or twice)") ELSE bad
  /\ UNCHANGED <<cur, got, cb, runq, th, ledger, tg, mx, sq, ob>>

\* a destructor is user code: it may yield or block, and the terminating thread may then continue on another worker.
\* The part of a destructor that does so is bracketed by two events; in between the thread is an ordinary user thread
\* whose return stack holds the termination stage it comes back to.
UDtorIn(w, tag) ==
  /\ \E t \in D : At(w, t, "fin0") /\ th[t].tag = tag /\ th' = CallPc(t, User, th[t].pc)
  /\ UNCHANGED <<cur, got, cb, runq, ledger, tg, bad, sv>>
UDtorOut(w, tag) ==
  /\ \E t \in D : At(w, t, "user") /\ th[t].tag = tag /\ th[t].rs # <<>> /\ Head(th[t].rs).k = "fin0" /\ th' = RetPc(t)
  /\ UNCHANGED <<cur, got, cb, runq, ledger, tg, bad, sv>>

\* ------------------------------------------------------------ cancellation
UCancelCall(w, tag, ctag) ==
  /\ \E t \in D : At(w, t, "user") /\ th[t].tag = tag /\ tg[ctag].d # 0
        /\ th' = SetPc(t, P("cn0", tg[ctag].d, ctag, 0))
  /\ UNCHANGED <<cur, got, cb, runq, ledger, tg, bad, sv>>
UCancelRet(w, tag, ctag) ==
  /\ \E t \in D : At(w, t, "cn9") /\ th[t].tag = tag /\ th[t].pc.y = ctag /\ th' = SetPc(t, User)
  /\ UNCHANGED <<cur, got, cb, runq, ledger, tg, bad, sv>>
UTestCancelCall(w, tag) ==
  /\ \E t \in D : At(w, t, "user") /\ th[t].tag = tag /\ th' = SetPc(t, P("tc0", t, 0, 0))
  /\ UNCHANGED <<cur, got, cb, runq, ledger, tg, bad, sv>>
UTestCancelRet(w, tag) ==
  /\ \E t \in D : At(w, t, "tc2") /\ th[t].tag = tag /\ ~tg[tag].creq /\ th' = SetPc(t, User)
  /\ UNCHANGED <<cur, got, cb, runq, ledger, tg, bad, sv>>

\* ============================================ sleeping and timed waits (C20)
\* time stamps are (seconds, nanoseconds); Gt is the library's strict comparison
TsGt(s1, n1, s2, n2) == s1 > s2 \/ (s1 = s2 /\ n1 > n2)
NS == 1000000000
\* a clock read made by the program itself (to compute an absolute deadline)
UClock(w, s, n) ==
  /\ \E t \in D : At(w, t, "user")
  /\ UNCHANGED corevars
\* ---- nanosleep / usleep / sleep
UNanosleepCall(w, tag, sec, nsec) ==
  /\ \E t \in D : At(w, t, "user") /\ th[t].tag = tag
        /\ th' = SetPc(t, IF sec < 0 \/ nsec < 0 \/ nsec > NS - 1 THEN P("ns9", 22, 0, 0) ELSE P("ns0", sec, nsec, 0))
  /\ UNCHANGED <<cur, got, cb, runq, ledger, tg, bad, sv>>
\* clock reads of the library: (ns0) compute the deadline, (ns1/tl1/tn1) compare with it
Clock(w, s, n) ==
  /\ \E t \in D : Runs(w, t) /\
     LET pc == th[t].pc IN
     \/ /\ pc.k = "ns0"
        /\ th' = SetPc(t, P("ns1", s + pc.x + (n + pc.y) \div NS, (n + pc.y) % NS, 0))
     \/ /\ pc.k = "ns1"                              \* return no earlier than the requested duration
        /\ th' = SetPc(t, IF TsGt(s, n, pc.x, pc.y) THEN P("ns9", 0, 0, 0) ELSE [pc EXCEPT !.k = "ns2"])
     \/ /\ pc.k = "tl1"                              \* timedlock: past the deadline => timeout, otherwise try again
        /\ th' = IF TsGt(s, n, pc.y, pc.z) THEN SetPc(t, P("tl9", pc.x, 110, 0))
                 ELSE CallPc(t, P("mt0", pc.x, 0, 0), [pc EXCEPT !.k = "tl", !.v = 1])
     \/ /\ pc.k = "tn1" /\ th[t].rs # <<>> /\ Head(th[t].rs).k = "tn"     \* timedjoin (deadline in the frame below)
        /\ th' = IF TsGt(s, n, Head(th[t].rs).y, Head(th[t].rs).z)
                 THEN [th EXCEPT ![t].pc = P("tn9", pc.x, 16, 0), ![t].rs = Tail(@)]
                 ELSE SetPc(t, P5("tj0", pc.x, pc.y, 0, 2))
  /\ UNCHANGED <<cur, got, cb, runq, ledger, tg, bad, sv>>
UNanosleepRet(w, tag, rc) ==
  /\ \E t \in D : At(w, t, "ns9") /\ th[t].tag = tag /\ rc = th[t].pc.x /\ th' = SetPc(t, User)
  /\ UNCHANGED <<cur, got, cb, runq, ledger, tg, bad, sv>>
\* ---- timedlock(m, absolute deadline)
UTimedLockCall(w, tag, m, dsec, dnsec) ==
  /\ \E t \in D : At(w, t, "user") /\ th[t].tag = tag
        /\ th' = CallPc(t, P("mt0", m, 0, 0), P5("tl", m, dsec, dnsec, 0))
  /\ UNCHANGED <<cur, got, cb, runq, ledger, tg, bad, sv>>
UTimedLockRet(w, tag, m, rc) ==
  /\ \E t \in D : At(w, t, "tl9") /\ th[t].tag = tag /\ th[t].pc.x = m /\ rc = th[t].pc.y
        /\ th' = SetPc(t, User)
        /\ gh' = IF rc = 0 THEN GhSet("mown", m, t) ELSE gh
  /\ bad' = IF rc = 0 /\ gh.mown[m] # 0 THEN Fail("C04: mutex acquired (timedlock) while another thread holds it") ELSE bad
  /\ UNCHANGED <<cur, got, cb, runq, ledger, tg, mx, sq, ob>>
\* ---- timedjoin(target, absolute deadline): a tryjoin, then clock / tryjoin / yield until success or timeout
UTimedJoinCall(w, tag, ctag, dsec, dnsec) ==
  /\ \E t \in D : At(w, t, "user") /\ th[t].tag = tag
        /\ tg[ctag].hs = "live" /\ tg[ctag].d # 0
        /\ th' = [th EXCEPT ![t].pc = P5("tj0", tg[ctag].d, ctag, 0, 1), ![t].rs = <<P5("tn", tg[ctag].d, dsec, dnsec, 0)>> \o @]
  /\ UNCHANGED <<cur, got, cb, runq, ledger, tg, bad, sv>>
UTimedJoinRet(w, tag, ctag, rc, v, cell) ==
  /\ \E t \in D : Runs(w, t) /\ th[t].tag = tag
        /\ \/ /\ th[t].pc.k = "tn9" /\ rc = 16 /\ tg[ctag].d = th[t].pc.x /\ tg' = tg /\ bad' = bad
              /\ th' = SetPc(t, User)
           \/ /\ th[t].pc.k = "jn5" /\ rc = 0 /\ th[t].pc.y = ctag /\ th[t].pc.z = v
              /\ th[t].rs # <<>> /\ Head(th[t].rs).k = "tn"
              /\ tg' = [tg EXCEPT ![ctag].hs = "reaped"]
              /\ bad' = IF ~tg[ctag].ended \/ v # tg[ctag].endv THEN Fail("C13: timedjoin succeeded with a wrong value")
                        ELSE IF cell # tg[ctag].cell THEN Fail("C01: a write of the joined thread is not visible to the joiner") ELSE bad
              /\ th' = [th EXCEPT ![t].pc = User, ![t].rs = Tail(@)]
  /\ UNCHANGED <<cur, got, cb, runq, lk, stk, freeD, freeS, flS, nD, nS, nL, anw, sv>>

\* ============================================================== properties
OK == bad = "ok"

\* places that hold a thread which is runnable but not running
HolderStages == {"fin3", "jn2d", "yd1", "blk1", "cr3", "cr3p", "wo1", "wo2", "cs2", "us2"}
InTransit(d) == \E w \in W : cb[w].k # "none" /\ cb[w].t = d
Places(d) ==
    Cardinality({<<w, i>> \in W \X (1..(MaxD + 1)) : i <= Len(runq[w]) /\ runq[w][i] = d})
  + Cardinality({w \in W : got[w] = d})
  + Cardinality({w \in W : cb[w].k # "none" /\ cb[w].n = d})
  + Cardinality({w \in W : cb[w].k # "none" /\ cb[w].p.k \in HolderStages /\ cb[w].p.z = d})
  + Cardinality({t \in D : t # 0 /\ th[t].pc.k \in HolderStages /\ th[t].pc.z = d /\ \E w \in W : Runs(w, t)})
  + Cardinality({t \in D : t # 0 /\ d \in SeqSet(th[t].wl)})
  + Cardinality({<<q, i>> \in Q \X (1..(MaxD + 1)) : i <= Len(sq[q]) /\ sq[q][i] = d})
  + Cardinality({u \in Obj : ob.uc[u] = d})
  + Cardinality({w \in W : cur[w] = d /\ cb[w].t # d})
\* C02: every thread is in at most one place, and a READY thread that is not in the middle of
\* being switched out is in exactly one (never lost, never duplicated)
ExactlyOnePlace ==
  \A d \in D : d # 0 /\ th[d].st # "none" =>
     /\ Places(d) <= 1
     /\ (th[d].st = "ready" /\ ~InTransit(d) /\ th[d].pc.k # "dead") => Places(d) = 1
     /\ (th[d].st \in {"free", "fin"}) => Places(d) = 0

RunnableSaved == \A w \in W : \A i \in 1..Len(runq[w]) : th[runq[w][i]].saved /\ th[runq[w][i]].st = "ready"
RunOnce == \A t \in Tag : tg[t].ran <= 1
ReapOnce == \A t \in Tag : tg[t].reaped <= 1
\* C12: the worker is never executing on a stack that is on a free list, and a stack is free
\* only when no live record points to it
NoUseAfterFree ==
  \A w \in W : cur[w] # 0 /\ cb[w].k = "none" => (th[cur[w]].stk # 0 => stk[th[cur[w]].stk].st = "live")
StackOwner == \A s \in S : stk[s].st = "live" /\ stk[s].own # 0 => th[stk[s].own].stk = s
\* the "in use" marker of a key cell agrees with the user-level view of live keys
KeyConsistent == gh.klock = -1 => \A k \in 0..(NKeys - 1) : (gh.knext[k] = -2) = (k \in gh.klive)
FreeListsDisjoint ==
  \A w1, w2 \in W : \A i \in 1..Len(freeD[w1]) : \A j \in 1..Len(freeD[w2]) :
     (w1 # w2 \/ i # j) => freeD[w1][i] # freeD[w2][j]
=============================================================================
