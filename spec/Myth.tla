------------------------------- MODULE Myth -------------------------------
(***************************************************************************)
(* Level-C specification of the MassiveThreads scheduler core:             *)
(* workers, run queues (abstract deques), thread records and stacks,       *)
(* create (child-first / parent-first), finish, join / tryjoin / detach,   *)
(* yield, work stealing, and the context-switch callbacks that run on the  *)
(* next context's stack after the caller's context has been saved.         *)
(*                                                                         *)
(* One action per hook event of the -DMYTH_VERIF build (same names).  The  *)
(* actions take the emitting worker and the logged values as parameters:   *)
(*   - MC_*.tla quantify the parameters existentially (exhaustive design   *)
(*     exploration, TLC);                                                  *)
(*   - MythTrace.tla binds them from a recorded execution (trace           *)
(*     validation).                                                        *)
(* "U*" actions are the user-visible API calls/returns; all other actions  *)
(* are internal linearisation points.                                      *)
(***************************************************************************)
EXTENDS Integers, Sequences, FiniteSets, TLC

CONSTANTS NW,        \* number of workers (ranks 0..NW-1)
          MaxD,      \* descriptor ids 1..MaxD (0 = NULL)
          MaxS,      \* stack ids 1..MaxS
          MaxTag,    \* thread tags 0..MaxTag (tag 0 = main thread)
          MaxObj,    \* ids of synchronisation objects 1..MaxObj
          MaxL       \* spin-lock ids 1..MaxL

W   == 0..(NW-1)
D   == 0..MaxD
S   == 0..MaxS
Tag == 0..MaxTag
Obj == 0..MaxObj
L   == 0..MaxL

VARIABLES
  cur,     \* cur[w]  : descriptor running on worker w (0 = scheduler)
  got,     \* got[w]  : thread an idle worker took from a queue and is about to run
  cb,      \* cb[w]   : context-switch callback in progress on w (k = "none" if none)
  runq,    \* runq[w] : run queue, Head = steal end (base), Last = owner end (top)
  th,      \* th[d]   : thread record
  lk,      \* lk[l]   : holder (worker) of spin lock l, -1 if free
  stk,     \* stk[s]  : stack ledger
  freeD,   \* freeD[w]: worker-local free list of records (LIFO, Head = next to hand out)
  freeS,   \* freeS[w]: worker-local free list of default-size stacks
  flS,     \* flS[w][i]: worker-local free list of custom stacks of size class i
  nD, nS, nL, \* number of distinct records / stacks / locks ever seen
  anw,     \* number of workers of the armed run (<= NW)
  tg,      \* tg[t]   : per-tag ghost record (what the user program observed)
  bad      \* "ok", or the first violated property-level assertion

corevars == <<cur, got, cb, runq, th, lk, stk, freeD, freeS, flS, nD, nS, nL, anw, tg, bad>>

\* ---------------------------------------------------------------- helpers
Last(s)  == s[Len(s)]
Front(s) == SubSeq(s, 1, Len(s) - 1)
SeqSet(s) == {s[i] : i \in 1..Len(s)}
P(k, x, y, z) == [k |-> k, x |-> x, y |-> y, z |-> z]
User == P("user", 0, 0, 0)
NoCb == [k |-> "none", t |-> 0, n |-> 0, x |-> 0, s |-> 0]
Cb(k, t, n, x, s) == [k |-> k, t |-> t, n |-> n, x |-> x, s |-> s]
Flag(b) == IF b THEN 1 ELSE 0
Fail(msg) == IF bad = "ok" THEN msg ELSE bad

\* creation flags (harness/mythprog.c)
F_PF == 1  F_DETACH == 2  F_STACK == 4  F_ATTR == 8  F_NULLID == 16
HasFlag(f, b) == (f \div b) % 2 = 1

NoTh == [st |-> "none", jt |-> 0, det |-> FALSE, res |-> 0, saved |-> FALSE,
         pc |-> P("none", 0, 0, 0), tag |-> -1, stk |-> 0, lk |-> 0, fin |-> FALSE]
NoStk == [st |-> "none", own |-> 0, lo |-> 0, hi |-> 0, kind |-> 0, idx |-> 0]
NoTg == [par |-> -1, d |-> 0, ran |-> 0, reaped |-> 0, endv |-> 0, ended |-> FALSE,
         flags |-> 0, hs |-> "none", cell |-> 0]

\* thread t is the one whose code worker w is executing (not inside a callback)
Runs(w, t) == cur[w] = t /\ t # 0 /\ cb[w].k = "none" /\ got[w] = 0
At(w, t, k) == Runs(w, t) /\ th[t].pc.k = k
Idle(w) == cur[w] = 0 /\ cb[w].k = "none"
SetPc(t, p) == [th EXCEPT ![t].pc = p]

cur0 == [w \in W |-> 0]
got0 == [w \in W |-> 0]
cb0 == [w \in W |-> NoCb]
runq0 == [w \in W |-> <<>>]
th0 == [d \in D |-> NoTh]
lk0 == [l \in L |-> -1]
stk0 == [s \in S |-> NoStk]
freeD0 == [w \in W |-> <<>>]
freeS0 == [w \in W |-> <<>>]
flS0 == [w \in W |-> [i \in 0..40 |-> <<>>]]
tg0 == [t \in Tag |-> NoTg]
CoreInit ==
  /\ cur = cur0 /\ got = got0 /\ cb = cb0 /\ runq = runq0 /\ th = th0 /\ lk = lk0 /\ stk = stk0
  /\ freeD = freeD0 /\ freeS = freeS0 /\ flS = flS0
  /\ nD = 0 /\ nS = 0 /\ nL = 0 /\ anw = NW
  /\ tg = tg0 /\ bad = "ok"
\* back to the initial state (between concatenated executions of a trace file)
CoreReset ==
  /\ cur' = cur0 /\ got' = got0 /\ cb' = cb0 /\ runq' = runq0 /\ th' = th0 /\ lk' = lk0 /\ stk' = stk0
  /\ freeD' = freeD0 /\ freeS' = freeS0 /\ flS' = flS0
  /\ nD' = 0 /\ nS' = 0 /\ nL' = 0 /\ anw' = NW
  /\ tg' = tg0 /\ bad' = bad

\* The main thread (tag 0) runs on worker w0 with record m; every other worker idle.
Arm(n, w0, m) ==
  /\ nD = 0 /\ m = 1 /\ n \in 1..NW /\ w0 \in 0..(n-1) /\ anw' = n
  /\ cur' = [cur EXCEPT ![w0] = m]
  /\ th' = [th EXCEPT ![m] = [NoTh EXCEPT !.st = "ready", !.pc = P("start", 0, 0, 0), !.tag = 0]]
  /\ nD' = 1
  /\ tg' = [tg EXCEPT ![0] = [NoTg EXCEPT !.d = m, !.hs = "main"]]
  /\ UNCHANGED <<got, cb, runq, lk, stk, freeD, freeS, flS, nS, nL, bad>>

\* ------------------------------------------------------------------ queues
\* Abstract deque semantics; what happens next depends on who popped.
\* "switch-out" stages that pop the next thread: fin2, jn2c, blk0 (sync), ucw0 (uncond)
PopStages == {"fin2", "jn2c", "blk0"}
\* yield bookkeeping: y bit 0 = local pop attempted, bit 1 = steal attempted (a steal attempt with a
\* single worker does nothing and leaves no event)
PopDone(y) == y % 2 = 1
StealDone(y) == (y \div 2) % 2 = 1 \/ anw = 1
QPop(w, q, n) ==
  /\ q = w /\ cb[w].k = "none" /\ got[w] = 0
  /\ n = (IF runq[w] = <<>> THEN 0 ELSE Last(runq[w]))
  /\ runq' = [runq EXCEPT ![w] = IF @ = <<>> THEN @ ELSE Front(@)]
  /\ IF cur[w] = 0
     THEN /\ n # 0 /\ got' = [got EXCEPT ![w] = n] /\ th' = th     \* idle scheduler loop (failed pops are not logged)
     ELSE LET t == cur[w] pc == th[t].pc IN
          /\ got' = got
          /\ \/ /\ pc.k \in PopStages
                /\ th' = SetPc(t, [pc EXCEPT !.k = IF pc.k = "fin2" THEN "fin3" ELSE IF pc.k = "jn2c" THEN "jn2d" ELSE "blk1", !.z = n])
             \/ /\ pc.k = "yd0" /\ ~PopDone(pc.y) /\ pc.x # 3   \* yield: local pop not tried yet; steal_only never pops
                /\ (pc.x = 4 => StealDone(pc.y))                    \* steal_first: steal attempted before
                /\ th' = SetPc(t, IF n # 0 THEN P("yd1", pc.x, pc.y, n) ELSE [pc EXCEPT !.y = @ + 1])
  /\ UNCHANGED <<cur, cb, lk, stk, freeD, freeS, flS, nD, nS, nL, anw, tg, bad>>

\* steal attempt on victim v's queue (by an idle worker, or by a yielding thread)
QTake(w, v, n) ==
  /\ cb[w].k = "none" /\ got[w] = 0 /\ v \in W
  /\ n = (IF runq[v] = <<>> THEN 0 ELSE Head(runq[v]))
  /\ runq' = [runq EXCEPT ![v] = IF @ = <<>> THEN @ ELSE Tail(@)]
  /\ IF cur[w] = 0
     THEN /\ n # 0 /\ v # w /\ got' = [got EXCEPT ![w] = n] /\ th' = th
     ELSE LET t == cur[w] pc == th[t].pc IN
          /\ got' = got
          /\ v # w /\ pc.k = "yd0" /\ ~StealDone(pc.y) /\ pc.x # 1   \* steal not tried yet; local_only never steals
          /\ (pc.x = 2 => PopDone(pc.y))                              \* local_first: pop tried before
          /\ (pc.x = 4 => ~PopDone(pc.y))
          /\ th' = SetPc(t, IF n # 0 THEN P("yd1", pc.x, pc.y, n) ELSE [pc EXCEPT !.y = @ + 2])
  /\ UNCHANGED <<cur, cb, lk, stk, freeD, freeS, flS, nD, nS, nL, anw, tg, bad>>

\* owner-side push: (a) create_1 callback pushes the parent, (b) parent-first create pushes the
\* child, (c) a waker pushes a woken thread (sync primitives, stage "wk*")
QPush(w, q, d) ==
  /\ q = w /\ d # 0
  /\ \/ /\ cb[w].k = "create" /\ cb[w].t = d /\ th[d].saved      \* (a)
        /\ runq' = [runq EXCEPT ![w] = Append(@, d)]
        /\ cur' = [cur EXCEPT ![w] = cb[w].n]
        /\ cb' = [cb EXCEPT ![w] = NoCb]
        /\ th' = th
     \/ /\ cb[w].k = "none" /\ Runs(w, cur[w]) /\ th[cur[w]].pc.k = "cr3p" /\ th[cur[w]].pc.z = d   \* (b)
        /\ runq' = [runq EXCEPT ![w] = Append(@, d)]
        /\ th' = SetPc(cur[w], [th[cur[w]].pc EXCEPT !.k = "cr4"])
        /\ UNCHANGED <<cur, cb>>
  /\ UNCHANGED <<got, lk, stk, freeD, freeS, flS, nD, nS, nL, anw, tg, bad>>

\* base-side put by the yield callback
QPut(w, q, d) ==
  /\ q = w /\ cb[w].k = "yield" /\ cb[w].t = d /\ cb[w].s = 0 /\ th[d].saved
  /\ runq' = [runq EXCEPT ![w] = <<d>> \o @]
  /\ cb' = [cb EXCEPT ![w].s = 1]
  /\ UNCHANGED <<cur, got, th, lk, stk, freeD, freeS, flS, nD, nS, nL, anw, tg, bad>>

\* idle worker starts / resumes the thread it obtained
SchedRun(w, n) ==
  /\ Idle(w) /\ got[w] = n /\ n # 0
  /\ th[n].saved /\ th[n].st = "ready"
  /\ cur' = [cur EXCEPT ![w] = n] /\ got' = [got EXCEPT ![w] = 0]
  /\ th' = [th EXCEPT ![n].saved = FALSE]
  /\ UNCHANGED <<cb, runq, lk, stk, freeD, freeS, flS, nD, nS, nL, anw, tg, bad>>

\* ------------------------------------------------------------- spin locks
SpinAcq(w, l) ==
  /\ lk[l] = -1 /\ lk' = [lk EXCEPT ![l] = w]
  /\ cb[w].k = "none" /\ Runs(w, cur[w])
  /\ LET me == cur[w] pc == th[me].pc IN
     \/ /\ pc.k = "fin0" /\ th[me].lk = l
        /\ th' = SetPc(me, [pc EXCEPT !.k = "fin1"])
     \/ /\ pc.k \in {"jn0", "tj0", "dt1"} /\ th[pc.x].lk = l
        /\ th' = SetPc(me, [pc EXCEPT !.k = IF pc.k = "jn0" THEN "jn1" ELSE IF pc.k = "tj0" THEN "tj1" ELSE "dt2"])
  /\ UNCHANGED <<cur, got, cb, runq, stk, freeD, freeS, flS, nD, nS, nL, anw, tg, bad>>

\* release; the stage decides what the release completes
SpinRel(w, l) ==
  /\ lk[l] = w /\ lk' = [lk EXCEPT ![l] = -1]
  /\ \/ /\ cb[w].k = "fin" /\ cb[w].x = l /\ cb[w].s \in {2, 3}  \* finisher: after Publish (3), or detached (2)
        /\ (cb[w].s = 2 => th[cb[w].t].det)
        /\ cb' = [cb EXCEPT ![w].s = IF cb[w].s = 3 THEN 5 ELSE 4]
        /\ th' = th
     \/ /\ cb[w].k = "join" /\ th[cb[w].x].lk = l /\ cb[w].s = 1   \* join callback: after JoinSet
        /\ cb' = [cb EXCEPT ![w].s = 2] /\ th' = th
     \/ /\ cb[w].k = "none" /\ Runs(w, cur[w])
        /\ LET me == cur[w] pc == th[me].pc IN
           /\ pc.k \in {"jn2f", "tj2", "dt3", "dt4"}
           /\ th[pc.x].lk = l
           /\ th' = SetPc(me, [pc EXCEPT !.k = CASE pc.k = "jn2f" -> "jn3"
                                                  [] pc.k = "tj2" -> (IF pc.z = 1 THEN "jn3" ELSE "tj9")
                                                  [] pc.k = "dt3" -> "dt5"     \* finished: free the record
                                                  [] pc.k = "dt4" -> "dt9"])
        /\ cb' = cb
  /\ UNCHANGED <<cur, got, runq, stk, freeD, freeS, flS, nD, nS, nL, anw, tg, bad>>

\* ------------------------------------------------------------------ create
UCreateCall(w, ptag, ctag, flags) ==
  /\ \E t \in D : At(w, t, "user") /\ th[t].tag = ptag
        /\ th' = SetPc(t, P("cr0", ctag, flags, 0))
  /\ tg[ctag].hs = "none"
  /\ tg' = [tg EXCEPT ![ctag] = [NoTg EXCEPT !.par = ptag, !.flags = flags, !.hs = "creating"]]
  /\ UNCHANGED <<cur, got, cb, runq, lk, stk, freeD, freeS, flS, nD, nS, nL, anw, bad>>

\* record allocation: reuse the head of this worker's free list; a fresh record only when it is empty
DescAlloc(w, rank, c, l, fresh) ==
  /\ rank = w /\ c # 0
  /\ \E t \in D : At(w, t, "cr0") /\ th' = [th EXCEPT ![t].pc = [@ EXCEPT !.k = "cr1", !.z = c],
                                                     ![c] = [NoTh EXCEPT !.st = "alloc", !.lk = l]]
  /\ IF freeD[w] # <<>>
     THEN /\ fresh = 0 /\ c = Head(freeD[w]) /\ l = th[c].lk /\ th[c].st = "free"
          /\ freeD' = [freeD EXCEPT ![w] = Tail(@)] /\ UNCHANGED <<nD, nL>>
     ELSE /\ fresh = 1 /\ c = nD + 1 /\ l = nL + 1
          /\ nD' = nD + 1 /\ nL' = nL + 1 /\ freeD' = freeD
  /\ UNCHANGED <<cur, got, cb, runq, lk, stk, freeS, flS, nS, anw, tg, bad>>

\* stack allocation. kind 0: default size from the free list, 1: default size fresh,
\* 2: custom size (size class idx) from the per-class lists
Overlaps(lo, hi) == \E s \in S : stk[s].st = "live" /\ lo < stk[s].hi /\ stk[s].lo < hi
StackAlloc(w, rank, s, lo, hi, kind, idx) ==
  /\ rank = w /\ s # 0 /\ lo < hi
  /\ \E t \in D : At(w, t, "cr1")
        /\ LET fl == th[t].pc.y
               custom == HasFlag(fl, F_PF) \/ HasFlag(fl, F_DETACH) \/ HasFlag(fl, F_STACK) \/ HasFlag(fl, F_ATTR) IN
           /\ (kind = 2) = custom
           /\ th' = [th EXCEPT ![t].pc = [@ EXCEPT !.k = "cr2"], ![th[t].pc.z].stk = s]
  /\ CASE kind = 0 -> freeS[w] # <<>> /\ s = Head(freeS[w]) /\ freeS' = [freeS EXCEPT ![w] = Tail(@)] /\ UNCHANGED <<flS, nS>>
       [] kind = 1 -> freeS[w] = <<>> /\ s = nS + 1 /\ nS' = nS + 1 /\ UNCHANGED <<freeS, flS>>
       [] kind = 2 -> /\ idx \in 0..40
                      /\ IF flS[w][idx] # <<>>
                         THEN s = Head(flS[w][idx]) /\ flS' = [flS EXCEPT ![w][idx] = Tail(@)] /\ nS' = nS
                         ELSE s = nS + 1 /\ nS' = nS + 1 /\ flS' = flS
                      /\ freeS' = freeS
  /\ stk[s].st \in {"none", "free"}
  /\ (stk[s].st = "free" => stk[s].lo = lo /\ stk[s].hi = hi)
  /\ stk' = [stk EXCEPT ![s] = [st |-> "live", own |-> 0, lo |-> lo, hi |-> hi, kind |-> kind, idx |-> idx]]
  /\ bad' = IF Overlaps(lo, hi) THEN Fail("C12: stack handed out overlaps a live stack") ELSE bad
  /\ UNCHANGED <<cur, got, cb, runq, lk, freeD, nD, nL, anw, tg>>

\* child-first: about to save the parent's context and run the child on its new stack
CreateCF(w, p, c, s, det, cds) ==
  /\ At(w, p, "cr2") /\ th[p].pc.z = c /\ th[c].stk = s /\ ~HasFlag(th[p].pc.y, F_PF)
  /\ det = Flag(HasFlag(th[p].pc.y, F_DETACH)) /\ cds = 0
  /\ th' = [th EXCEPT ![p].pc = [@ EXCEPT !.k = "cr3"],
                      ![c] = [@ EXCEPT !.st = "ready", !.tag = th[p].pc.x, !.pc = P("start", 0, 0, 0),
                                      !.det = HasFlag(th[p].pc.y, F_DETACH)]]
  /\ stk' = [stk EXCEPT ![s].own = c]
  /\ tg' = [tg EXCEPT ![th[p].pc.x].d = c, ![th[p].pc.x].hs = IF HasFlag(th[p].pc.y, F_DETACH) THEN "detached" ELSE "live"]
  /\ UNCHANGED <<cur, got, cb, runq, lk, freeD, freeS, flS, nD, nS, nL, anw, bad>>

CreatePF(w, p, c, s, det, cds) ==
  /\ At(w, p, "cr2") /\ th[p].pc.z = c /\ th[c].stk = s /\ HasFlag(th[p].pc.y, F_PF)
  /\ det = Flag(HasFlag(th[p].pc.y, F_DETACH)) /\ cds = 0
  /\ th' = [th EXCEPT ![p].pc = [@ EXCEPT !.k = "cr3p"],
                      ![c] = [@ EXCEPT !.st = "ready", !.tag = th[p].pc.x, !.pc = P("entry", 0, 0, 0),
                                      !.saved = TRUE,        \* a freshly made context is resumable
                                      !.det = HasFlag(th[p].pc.y, F_DETACH)]]
  /\ stk' = [stk EXCEPT ![s].own = c]
  /\ tg' = [tg EXCEPT ![th[p].pc.x].d = c, ![th[p].pc.x].hs = IF HasFlag(th[p].pc.y, F_DETACH) THEN "detached" ELSE "live"]
  /\ UNCHANGED <<cur, got, cb, runq, lk, freeD, freeS, flS, nD, nS, nL, anw, bad>>

UCreateRet(w, ptag, ctag) ==
  /\ \E t \in D : At(w, t, "cr4") /\ th[t].tag = ptag
        /\ ctag = th[t].pc.x
        /\ th' = SetPc(t, User)
  /\ UNCHANGED <<cur, got, cb, runq, lk, stk, freeD, freeS, flS, nD, nS, nL, anw, tg, bad>>

\* ---------------------------------------------------- callbacks: enter / exit
\* kinds: 1 create_1, 2 entry_point_1 (next thread), 3 entry_point_2 (scheduler),
\*        4 join_2 (next thread), 5 join_3 (scheduler), 6 yield_ex_1
CbEnter(w, kind, align) ==
  /\ cb[w].k = "none" /\ got[w] = 0
  /\ \E t \in D : Runs(w, t) /\
     LET pc == th[t].pc IN
     \/ /\ kind = 1 /\ pc.k = "cr3"
        /\ cb' = [cb EXCEPT ![w] = Cb("create", t, pc.z, 0, 0)]
        /\ th' = [th EXCEPT ![t].saved = TRUE, ![t].pc = [pc EXCEPT !.k = "cr4"]]
     \/ /\ kind \in {2, 3} /\ pc.k = "fin3" /\ (kind = 2) = (pc.z # 0)
        /\ cb' = [cb EXCEPT ![w] = Cb("fin", t, pc.z, th[t].lk, 0)]
        /\ th' = SetPc(t, P("dead", 0, 0, 0))
     \/ /\ kind \in {4, 5} /\ pc.k = "jn2d" /\ (kind = 4) = (pc.z # 0)
        /\ cb' = [cb EXCEPT ![w] = Cb("join", t, pc.z, pc.x, 0)]
        /\ th' = [th EXCEPT ![t].saved = TRUE, ![t].pc = P("jn3", pc.x, pc.y, 0)]
     \/ /\ kind = 6 /\ pc.k = "yd1"
        /\ cb' = [cb EXCEPT ![w] = Cb("yield", t, pc.z, 0, 0)]
        /\ th' = [th EXCEPT ![t].saved = TRUE, ![t].pc = P("yd9", 0, 0, 0)]
  /\ bad' = IF align # 0 THEN Fail("C03: callback entered with misaligned stack") ELSE bad
  /\ UNCHANGED <<cur, got, runq, lk, stk, freeD, freeS, flS, nD, nS, nL, anw, tg>>

\* the callback returns and the worker jumps into the next context
CbExit(w) ==
  /\ \/ cb[w].k = "fin" /\ cb[w].s \in {5, 6}
     \/ cb[w].k = "join" /\ cb[w].s = 2
     \/ cb[w].k = "yield" /\ cb[w].s = 1
  /\ LET n == cb[w].n IN
     /\ n # 0 => th[n].saved /\ th[n].st = "ready"
     /\ cur' = [cur EXCEPT ![w] = n]
     /\ th' = IF n # 0 THEN [th EXCEPT ![n].saved = FALSE] ELSE th
  /\ cb' = [cb EXCEPT ![w] = NoCb]
  /\ UNCHANGED <<got, runq, lk, stk, freeD, freeS, flS, nD, nS, nL, anw, tg, bad>>

\* ------------------------------------------------------- thread start / end
ThreadEntry(w, align) ==      \* first instruction of a parent-first thread
  /\ \E t \in D : At(w, t, "entry") /\ th' = SetPc(t, P("start", 0, 0, 0))
  /\ bad' = IF align # 0 THEN Fail("C03: thread entered with misaligned stack") ELSE bad
  /\ UNCHANGED <<cur, got, cb, runq, lk, stk, freeD, freeS, flS, nD, nS, nL, anw, tg>>

UBodyStart(w, tag, tok) ==
  /\ \E t \in D : At(w, t, "start") /\ th[t].tag = tag /\ th' = SetPc(t, User)
  /\ tg' = [tg EXCEPT ![tag].ran = @ + 1]
  /\ bad' = IF tg[tag].ran # 0 THEN Fail("C01: start function invoked twice")
            ELSE IF tag # 0 /\ tok # 7700 + tag THEN Fail("C01: start function got a wrong argument")
            ELSE bad
  /\ UNCHANGED <<cur, got, cb, runq, lk, stk, freeD, freeS, flS, nD, nS, nL, anw>>

\* the start function returns v (kind 0) or calls the exit routine with v (kind 1)
UBodyEnd(w, tag, v, kind) ==
  /\ tag # 0
  /\ \E t \in D : At(w, t, "user") /\ th[t].tag = tag
        /\ th' = [th EXCEPT ![t].pc = P("fin0", v, 0, 0), ![t].res = v]
  /\ tg' = [tg EXCEPT ![tag].endv = v, ![tag].ended = TRUE, ![tag].cell = 5000 + tag]
  /\ UNCHANGED <<cur, got, cb, runq, lk, stk, freeD, freeS, flS, nD, nS, nL, anw, bad>>

\* finisher, under its own record lock, looks for a registered joiner
FinWaiter(w, t, j) ==
  /\ At(w, t, "fin1") /\ lk[th[t].lk] = w /\ j = th[t].jt
  /\ IF j # 0
     THEN /\ th[j].st = "blocked"
          /\ th' = [th EXCEPT ![j].st = "ready", ![t].pc = [@ EXCEPT !.k = "fin3", !.z = j]]
     ELSE th' = SetPc(t, [th[t].pc EXCEPT !.k = "fin2"])
  /\ UNCHANGED <<cur, got, cb, runq, lk, stk, freeD, freeS, flS, nD, nS, nL, anw, tg, bad>>

\* (in the callback, i.e. on the next context's stack) the finished thread's stack is released
StackFree(w, rank, s, kind, idx) ==
  /\ rank = w /\ cb[w].k = "fin" /\ cb[w].s = 0 /\ s = th[cb[w].t].stk /\ s # 0
  /\ stk[s].st = "live" /\ stk[s].own = cb[w].t /\ stk[s].kind \in (IF kind = 0 THEN {0, 1} ELSE {2}) /\ stk[s].idx = idx
  /\ stk' = [stk EXCEPT ![s].st = "free", ![s].own = 0]
  /\ IF kind = 0 THEN freeS' = [freeS EXCEPT ![w] = <<s>> \o @] /\ flS' = flS
                 ELSE flS' = [flS EXCEPT ![w][idx] = <<s>> \o @] /\ freeS' = freeS
  /\ cb' = [cb EXCEPT ![w].s = 1]
  /\ UNCHANGED <<cur, got, runq, th, lk, freeD, nD, nS, nL, anw, tg, bad>>

FinDet(w, t, det) ==
  /\ cb[w].k = "fin" /\ cb[w].t = t /\ cb[w].s = 1 /\ lk[th[t].lk] = w
  /\ det = Flag(th[t].det)
  /\ cb' = [cb EXCEPT ![w].s = 2]
  /\ UNCHANGED <<cur, got, runq, th, lk, stk, freeD, freeS, flS, nD, nS, nL, anw, tg, bad>>

\* the result becomes visible to joiners (status FREE_READY2), still under the lock
Publish(w, t) ==
  /\ cb[w].k = "fin" /\ cb[w].t = t /\ cb[w].s = 2 /\ ~th[t].det /\ lk[th[t].lk] = w
  /\ th' = [th EXCEPT ![t].fin = TRUE, ![t].st = "fin"]
  /\ cb' = [cb EXCEPT ![w].s = 3]
  /\ UNCHANGED <<cur, got, runq, lk, stk, freeD, freeS, flS, nD, nS, nL, anw, tg, bad>>

\* a record goes back to the executing worker's free list:
\*  (a) finisher of a detached thread, (b) joiner after reading the result, (c) detach of a finished thread
DescFree(w, rank, d) ==
  /\ rank = w /\ d # 0 /\ th[d].st \in {"fin", "ready"}
  /\ \/ /\ cb[w].k = "fin" /\ cb[w].t = d /\ cb[w].s = 4 /\ th[d].det
        /\ cb' = [cb EXCEPT ![w].s = 6]
        /\ th' = [th EXCEPT ![d].st = "free"]
        /\ tg' = [tg EXCEPT ![th[d].tag].reaped = @ + 1]
     \/ /\ cb[w].k = "none" /\ Runs(w, cur[w]) /\ cb' = cb
        /\ LET me == cur[w] pc == th[me].pc IN
           /\ pc.k \in {"jn4", "dt5"} /\ pc.x = d /\ th[d].fin
           /\ (pc.k = "jn4" => lk[th[d].lk] = -1)   \* (detach's unlocked fast path may overtake the finisher's unlock)
           /\ th' = [th EXCEPT ![d].st = "free", ![me].pc = [pc EXCEPT !.k = IF pc.k = "jn4" THEN "jn5" ELSE "dt9"]]
           /\ tg' = [tg EXCEPT ![th[d].tag].reaped = @ + 1]
  /\ freeD' = [freeD EXCEPT ![w] = <<d>> \o @]
  /\ bad' = IF tg[th[d].tag].reaped # 0 THEN Fail("C13: thread reaped twice") ELSE bad
  /\ UNCHANGED <<cur, got, runq, lk, stk, freeS, flS, nD, nS, nL, anw>>

\* -------------------------------------------------------------------- join
UJoinCall(w, tag, ctag) ==
  /\ \E t \in D : At(w, t, "user") /\ th[t].tag = tag
        /\ tg[ctag].hs = "live" /\ tg[ctag].d # 0
        /\ th' = SetPc(t, P("jn0", tg[ctag].d, ctag, 0))
  /\ tg' = [tg EXCEPT ![ctag].hs = "joining"]
  /\ UNCHANGED <<cur, got, cb, runq, lk, stk, freeD, freeS, flS, nD, nS, nL, anw, bad>>

JoinChk(w, j, t, fin) ==
  /\ At(w, j, "jn1") /\ th[j].pc.x = t /\ lk[th[t].lk] = w
  /\ fin = Flag(th[t].fin)
  /\ th' = SetPc(j, [th[j].pc EXCEPT !.k = IF fin = 1 THEN "jn2f" ELSE "jn2b"])
  /\ UNCHANGED <<cur, got, cb, runq, lk, stk, freeD, freeS, flS, nD, nS, nL, anw, tg, bad>>

SetBlocked(w, j) ==
  /\ At(w, j, "jn2b")
  /\ th' = [th EXCEPT ![j].st = "blocked", ![j].pc = [@ EXCEPT !.k = "jn2c"]]
  /\ UNCHANGED <<cur, got, cb, runq, lk, stk, freeD, freeS, flS, nD, nS, nL, anw, tg, bad>>

\* in the join callback: the joiner (context already saved) registers itself with the target
JoinSet(w, t, j) ==
  /\ cb[w].k = "join" /\ cb[w].t = j /\ cb[w].x = t /\ cb[w].s = 0
  /\ th[j].saved /\ lk[th[t].lk] = w /\ th[t].jt = 0 /\ ~th[t].fin
  /\ th' = [th EXCEPT ![t].jt = j]
  /\ cb' = [cb EXCEPT ![w].s = 1]
  /\ UNCHANGED <<cur, got, runq, lk, stk, freeD, freeS, flS, nD, nS, nL, anw, tg, bad>>

\* the joiner reads the result; only after the target has published it
JoinReap(w, t, v) ==
  /\ \E j \in D : At(w, j, "jn3") /\ th[j].pc.x = t
        /\ th[t].fin
        /\ th' = SetPc(j, [th[j].pc EXCEPT !.k = "jn4", !.z = v])
  /\ bad' = IF ~tg[th[t].tag].ended THEN Fail("C01: join read a result before the function ended")
            ELSE IF v # tg[th[t].tag].endv THEN Fail("C01: join read a wrong result") ELSE bad
  /\ UNCHANGED <<cur, got, cb, runq, lk, stk, freeD, freeS, flS, nD, nS, nL, anw, tg>>

UJoinRet(w, tag, ctag, v, cell) ==
  /\ \E t \in D : At(w, t, "jn5") /\ th[t].tag = tag /\ th[t].pc.y = ctag /\ th[t].pc.z = v
        /\ th' = SetPc(t, User)
  /\ tg' = [tg EXCEPT ![ctag].hs = "reaped"]
  /\ bad' = IF ~tg[ctag].ended THEN Fail("C01: join returned before the thread ended")
            ELSE IF v # tg[ctag].endv THEN Fail("C01: join returned a wrong value")
            ELSE IF cell # tg[ctag].cell THEN Fail("C01: a write of the joined thread is not visible to the joiner")
            ELSE bad
  /\ UNCHANGED <<cur, got, cb, runq, lk, stk, freeD, freeS, flS, nD, nS, nL, anw>>

\* ----------------------------------------------------------------- tryjoin
UTryJoinCall(w, tag, ctag) ==
  /\ \E t \in D : At(w, t, "user") /\ th[t].tag = tag
        /\ tg[ctag].hs = "live" /\ tg[ctag].d # 0
        /\ th' = SetPc(t, P("tj0", tg[ctag].d, ctag, 0))
  /\ UNCHANGED <<cur, got, cb, runq, lk, stk, freeD, freeS, flS, nD, nS, nL, anw, tg, bad>>

TryJoinChk(w, j, t, fin) ==
  /\ At(w, j, "tj1") /\ th[j].pc.x = t /\ lk[th[t].lk] = w
  /\ fin = Flag(th[t].fin)
  /\ th' = SetPc(j, [th[j].pc EXCEPT !.k = "tj2", !.z = fin])
  /\ UNCHANGED <<cur, got, cb, runq, lk, stk, freeD, freeS, flS, nD, nS, nL, anw, tg, bad>>

UTryJoinRet(w, tag, ctag, rc, v, cell) ==
  /\ \E t \in D : Runs(w, t) /\ th[t].tag = tag /\ th[t].pc.y = ctag
        /\ \/ /\ th[t].pc.k = "tj9" /\ rc # 0 /\ tg' = tg /\ bad' = bad
           \/ /\ th[t].pc.k = "jn5" /\ rc = 0 /\ th[t].pc.z = v
              /\ tg' = [tg EXCEPT ![ctag].hs = "reaped"]
              /\ bad' = IF ~tg[ctag].ended \/ v # tg[ctag].endv THEN Fail("C13: tryjoin succeeded with a wrong value")
                        ELSE IF cell # tg[ctag].cell THEN Fail("C01: a write of the joined thread is not visible to the joiner")
                        ELSE bad
        /\ th' = SetPc(t, User)
  /\ UNCHANGED <<cur, got, cb, runq, lk, stk, freeD, freeS, flS, nD, nS, nL, anw>>

\* ------------------------------------------------------------------ detach
UDetachCall(w, tag, ctag) ==
  /\ \E t \in D : At(w, t, "user") /\ th[t].tag = tag
        /\ tg[ctag].hs = "live" /\ tg[ctag].d # 0
        /\ th' = SetPc(t, P("dt0", tg[ctag].d, ctag, 0))
  /\ tg' = [tg EXCEPT ![ctag].hs = "detached"]
  /\ UNCHANGED <<cur, got, cb, runq, lk, stk, freeD, freeS, flS, nD, nS, nL, anw, bad>>

\* unlocked look at the status: already published => just free the record
DetachQuick(w, t, f) ==
  /\ \E me \in D : At(w, me, "dt0") /\ th[me].pc.x = t
        /\ f = Flag(th[t].fin)
        /\ th' = SetPc(me, [th[me].pc EXCEPT !.k = IF f = 1 THEN "dt5" ELSE "dt1"])
  /\ UNCHANGED <<cur, got, cb, runq, lk, stk, freeD, freeS, flS, nD, nS, nL, anw, tg, bad>>

DetachChk(w, t, fin) ==
  /\ \E me \in D : At(w, me, "dt2") /\ th[me].pc.x = t /\ lk[th[t].lk] = w
        /\ fin = Flag(th[t].fin)
        /\ th' = SetPc(me, [th[me].pc EXCEPT !.k = IF fin = 1 THEN "dt3" ELSE "dt3n"])
  /\ UNCHANGED <<cur, got, cb, runq, lk, stk, freeD, freeS, flS, nD, nS, nL, anw, tg, bad>>

SetDetached(w, t) ==
  /\ \E me \in D : At(w, me, "dt3n") /\ th[me].pc.x = t /\ lk[th[t].lk] = w
        /\ th' = [th EXCEPT ![t].det = TRUE, ![me].pc = [@ EXCEPT !.k = "dt4"]]
  /\ UNCHANGED <<cur, got, cb, runq, lk, stk, freeD, freeS, flS, nD, nS, nL, anw, tg, bad>>

UDetachRet(w, tag, ctag) ==
  /\ \E t \in D : At(w, t, "dt9") /\ th[t].tag = tag /\ th[t].pc.y = ctag /\ th' = SetPc(t, User)
  /\ UNCHANGED <<cur, got, cb, runq, lk, stk, freeD, freeS, flS, nD, nS, nL, anw, tg, bad>>

\* ------------------------------------------------------------------- yield
\* opt: 0 half_half, 1 local_only, 2 local_first, 3 steal_only, 4 steal_first
UYieldCall(w, tag, opt) ==
  /\ opt \in 0..4
  /\ \E t \in D : At(w, t, "user") /\ th[t].tag = tag /\ th' = SetPc(t, P("yd0", opt, 0, 0))
  /\ UNCHANGED <<cur, got, cb, runq, lk, stk, freeD, freeS, flS, nD, nS, nL, anw, tg, bad>>

\* returns either after having been switched out and resumed (yd9) or immediately when no
\* other thread was found by the attempts the option prescribes (yd0, y = attempts made)
YieldExhausted(opt, y) ==
  CASE opt = 1 -> PopDone(y)
    [] opt = 3 -> StealDone(y)
    [] OTHER -> PopDone(y) /\ StealDone(y)
UYieldRet(w, tag) ==
  /\ \E t \in D : Runs(w, t) /\ th[t].tag = tag
        /\ \/ th[t].pc.k = "yd9"
           \/ th[t].pc.k = "yd0" /\ YieldExhausted(th[t].pc.x, th[t].pc.y)
        /\ th' = SetPc(t, User)
  /\ UNCHANGED <<cur, got, cb, runq, lk, stk, freeD, freeS, flS, nD, nS, nL, anw, tg, bad>>

UMainEnd(w) ==
  /\ \E t \in D : At(w, t, "user") /\ th[t].tag = 0 /\ th' = SetPc(t, P("done", 0, 0, 0))
  /\ UNCHANGED <<cur, got, cb, runq, lk, stk, freeD, freeS, flS, nD, nS, nL, anw, tg, bad>>

\* ============================================================== properties
OK == bad = "ok"

\* places that hold a thread which is runnable but not running
HolderStages == {"fin3", "jn2d", "yd1", "blk1", "cr3", "cr3p"}
InTransit(d) == \E w \in W : cb[w].k # "none" /\ cb[w].t = d
Places(d) ==
    Cardinality({<<w, i>> \in W \X (1..(MaxD + 1)) : i <= Len(runq[w]) /\ runq[w][i] = d})
  + Cardinality({w \in W : got[w] = d})
  + Cardinality({w \in W : cb[w].k # "none" /\ cb[w].n = d})
  + Cardinality({t \in D : t # 0 /\ th[t].pc.k \in HolderStages /\ th[t].pc.z = d /\ \E w \in W : Runs(w, t)})
  + Cardinality({w \in W : cur[w] = d /\ cb[w].t # d})
\* C02: every thread is in at most one place, and a READY thread that is not in the middle of
\* being switched out is in exactly one (never lost, never duplicated)
ExactlyOnePlace ==
  \A d \in D : d # 0 /\ th[d].st # "none" =>
     /\ Places(d) <= 1
     /\ (th[d].st = "ready" /\ ~InTransit(d) /\ th[d].pc.k # "dead") => Places(d) = 1
     /\ (th[d].st \in {"free", "fin"}) => Places(d) = 0

RunnableSaved == \A w \in W : \A i \in 1..Len(runq[w]) : th[runq[w][i]].saved /\ th[runq[w][i]].st = "ready"
RunOnce == \A t \in Tag : tg[t].ran <= 1
ReapOnce == \A t \in Tag : tg[t].reaped <= 1
\* C12: the worker is never executing on a stack that is on a free list, and a stack is free
\* only when no live record points to it
NoUseAfterFree ==
  \A w \in W : cur[w] # 0 /\ cb[w].k = "none" => (th[cur[w]].stk # 0 => stk[th[cur[w]].stk].st = "live")
StackOwner == \A s \in S : stk[s].st = "live" /\ stk[s].own # 0 => th[stk[s].own].stk = s
FreeListsDisjoint ==
  \A w1, w2 \in W : \A i \in 1..Len(freeD[w1]) : \A j \in 1..Len(freeD[w2]) :
     (w1 # w2 \/ i # j) => freeD[w1][i] # freeD[w2][j]
=============================================================================
