---- MODULE SSReplay ----
EXTENDS SleepStack
VARIABLE hist
Mover == CHOOSE p \in Procs : pc'[p] # pc[p] \/ loc'[p] # loc[p]
InitH == Init /\ hist = <<>>
NextH == /\ Next
         /\ hist' = Append(hist, [p |-> Mover, from |-> pc[Mover], to |-> pc'[Mover], x |-> loc'[Mover].x,
                                   top |-> top', next |-> [i \in Items |-> next'[i]]])
SpecH == InitH /\ [][NextH]_<<vars, hist>>
Done == \A i \in Items : i \in popped
Dump == (Len(hist) = 48 \/ (Done /\ Quiescent)) => PrintT(<<"BEHAVIOUR", ToJson(hist)>>)
Bound == Len(hist) <= 48
====
