------------------------------- MODULE PiDag -------------------------------
(***************************************************************************)
(* Well-formedness of dumped / converted DAG files (C19).  The simulator   *)
(* exports every DAG it dumped and read back (and its shrunk conversion)   *)
(* as one JSON object per line; TLC evaluates the predicates below on each *)
(* of them.  A DAG is (T, E): T a sequence of nodes in pre-order with      *)
(* relative child / subgraph offsets, E a sequence of edges.               *)
(*   kinds: 0 create, 1 wait, 2 other, 3 end, 4 section, 5 task            *)
(***************************************************************************)
EXTENDS Integers, Sequences, FiniteSets, TLC, Json, IOUtils

Dags == ndJsonDeserialize(IOEnv.DAGS)
VARIABLE k
N(G) == G.n
Node(G, i) == G.nodes[i + 1]            \* nodes are numbered from 0 in the file
Edge(G, j) == G.edges[j + 1]
IsInner(G, i) == Node(G, i).k >= 4 /\ Node(G, i).a < Node(G, i).b
IsLeaf(G, i) == ~IsInner(G, i)

\* every child / subgraph offset refers to a node inside the DAG, after the node itself
OffsetsOK(G) ==
  \A i \in 0..(N(G) - 1) :
    LET x == Node(G, i) IN
    IF x.k = 0 THEN i + x.a \in (i + 1)..(N(G) - 1)
    ELSE IF x.k >= 4 THEN (x.a <= x.b /\ (x.a < x.b => i + x.a \in (i + 1)..(N(G) - 1) /\ i + x.b \in (i + 1)..N(G)))
    ELSE TRUE
\* every edge connects two nodes of the DAG that are leaves; edges are grouped by source node and the
\* per-node edge ranges partition E
EdgesOK(G) ==
  /\ \A j \in 0..(G.m - 1) : Edge(G, j).u \in 0..(N(G) - 1) /\ Edge(G, j).v \in 0..(N(G) - 1)
                            /\ IsLeaf(G, Edge(G, j).u) /\ IsLeaf(G, Edge(G, j).v) /\ Edge(G, j).k \in 0..4
  /\ \A j \in 0..(G.m - 2) : Edge(G, j).u <= Edge(G, j + 1).u
  /\ \A i \in 0..(N(G) - 1) : LET x == Node(G, i) IN
        /\ 0 <= x.eb /\ x.eb <= x.ee /\ x.ee <= G.m
        /\ \A j \in x.eb..(x.ee - 1) : Edge(G, j).u = i
        /\ Cardinality({j \in 0..(G.m - 1) : Edge(G, j).u = i}) = x.ee - x.eb
\* every leaf is reachable from the first leaf along the edges
RECURSIVE FirstLeaf(_, _)
FirstLeaf(G, i) == IF IsInner(G, i) THEN FirstLeaf(G, i + Node(G, i).a) ELSE i
RECURSIVE Closure(_, _)
Closure(G, S) == LET S2 == S \cup {Edge(G, j).v : j \in {jj \in 0..(G.m - 1) : Edge(G, jj).u \in S}} IN
                 IF S2 = S THEN S ELSE Closure(G, S2)
Leaves(G) == {i \in 0..(N(G) - 1) : IsLeaf(G, i)}
\* (leaves inside a contracted node are not part of the file; a leaf below a create node's child is reached
\*  through the create edge)
Reachable(G) == Leaves(G) \subseteq Closure(G, {FirstLeaf(G, 0)})
\* dependencies respect time: a node starts no earlier than each of its predecessors ended
Chronological(G) == \A j \in 0..(G.m - 1) : Node(G, Edge(G, j).u).e <= Node(G, Edge(G, j).v).s
\* hence the chronological replay (ready / start / end with predecessor counts) starts and ends every leaf
\* exactly once: every leaf except the first has a predecessor, and the dependency relation is acyclic
\* because it is consistent with the (strictly increasing) interval order
HasPred(G) == \A i \in Leaves(G) : i = FirstLeaf(G, 0) \/ \E j \in 0..(G.m - 1) : Edge(G, j).v = i
Intervals(G) == \A i \in Leaves(G) : Node(G, i).s <= Node(G, i).e

WellFormed(G) == OffsetsOK(G) /\ EdgesOK(G) /\ Reachable(G) /\ Chronological(G) /\ HasPred(G) /\ Intervals(G)

Init == k = 1
Next == k < Len(Dags) /\ k' = k + 1
Spec == Init /\ [][Next]_k
AllWellFormed == k <= Len(Dags) => WellFormed(Dags[k])
Done == TLCGet("stats").diameter = Len(Dags) \/ Len(Dags) = 0
=============================================================================
