--------------------------- MODULE InitFiniTrace ---------------------------
EXTENDS InitFini, Sequences, Json, IOUtils
Tr == ndJsonDeserialize(IOEnv.TRACE)
VARIABLE l
E == Tr[l]
A(i) == E.a[i]
Is(name) == l <= Len(Tr) /\ E.e = name /\ l' = l + 1
TInit == IFInit /\ l = 1
TNext ==
  \/ Is("Reset") /\ ist' = "uninit" /\ req' = 0 /\ nw' = 0 /\ started' = {} /\ exited' = {} /\ gens' = 0 /\ bad' = bad
  \/ Is("U_Request") /\ URequest(A(1))
  \/ Is("InitCas") /\ InitCas(A(1))
  \/ Is("InitReally") /\ InitReally(A(1))
  \/ Is("WorkerStart") /\ WorkerStart(A(1))
  \/ Is("InitDone") /\ InitDone
  \/ Is("U_NumWorkers") /\ UNumWorkers(A(1))
  \/ Is("U_WorkerNum") /\ UWorkerNum(A(1))
  \/ Is("U_KeysExhausted") /\ UKeysExhausted(A(1), A(2))
  \/ Is("FiniBegin") /\ FiniBegin
  \/ Is("WorkerExit") /\ WorkerExit(A(1))
  \/ Is("FiniDone") /\ FiniDone
TSpec == TInit /\ [][TNext]_<<ifvars, l>>
TraceAccepted ==
  LET d == TLCGet("stats").diameter IN
  /\ PrintT(<<"MATCHED", d - 1, "OF", Len(Tr)>>)
  /\ d - 1 = Len(Tr)
=============================================================================
