----------------------------- MODULE MythTrace -----------------------------
(* Trace validation: every recorded event of a hooked run must be an enabled step of
   the corresponding Myth action, and every invariant must hold in every state. *)
EXTENDS Myth, Json, IOUtils

Tr == ndJsonDeserialize(IOEnv.TRACE)
VARIABLE l
tvars == <<corevars, l>>
E == Tr[l]
A(i) == E.a[i]
ew == E.w
Is(name) == l <= Len(Tr) /\ E.e = name /\ l' = l + 1

TInit == CoreInit /\ l = 1

TNext ==
  \/ Is("Reset") /\ CoreReset
  \/ Is("Arm") /\ Arm(A(1), A(2), A(3))
  \/ Is("Disarm") /\ UNCHANGED corevars
  \/ Is("QPop") /\ QPop(ew, A(1), A(2))
  \/ Is("QTake") /\ QTake(ew, A(1), A(2))
  \/ Is("QPush") /\ QPush(ew, A(1), A(2))
  \/ Is("QPut") /\ QPut(ew, A(1), A(2))
  \/ Is("SchedRun") /\ SchedRun(ew, A(1))
  \/ Is("SpinAcq") /\ SpinAcq(ew, A(1))
  \/ Is("SpinRel") /\ SpinRel(ew, A(1))
  \/ Is("U_CreateCall") /\ UCreateCall(ew, A(1), A(2), A(3))
  \/ Is("DescAlloc") /\ DescAlloc(ew, A(1), A(2), A(3), A(4))
  \/ Is("StackAlloc") /\ StackAlloc(ew, A(1), A(2), A(3), A(4), A(5), A(6))
  \/ Is("CreateCF") /\ CreateCF(ew, A(1), A(2), A(3), A(4), A(5))
  \/ Is("CreatePF") /\ CreatePF(ew, A(1), A(2), A(3), A(4), A(5))
  \/ Is("U_CreateRet") /\ UCreateRet(ew, A(1), A(2))
  \/ Is("CbEnter") /\ CbEnter(ew, A(1), A(2))
  \/ Is("CbExit") /\ CbExit(ew)
  \/ Is("ThreadEntry") /\ ThreadEntry(ew, A(1))
  \/ Is("U_BodyStart") /\ UBodyStart(ew, A(1), A(2))
  \/ Is("U_BodyEnd") /\ UBodyEnd(ew, A(1), A(2), A(3))
  \/ Is("FinWaiter") /\ FinWaiter(ew, A(1), A(2))
  \/ Is("StackFree") /\ StackFree(ew, A(1), A(2), A(3), A(4))
  \/ Is("FinDet") /\ FinDet(ew, A(1), A(2))
  \/ Is("Publish") /\ Publish(ew, A(1))
  \/ Is("DescFree") /\ DescFree(ew, A(1), A(2))
  \/ Is("U_JoinCall") /\ UJoinCall(ew, A(1), A(2))
  \/ Is("JoinChk") /\ JoinChk(ew, A(1), A(2), A(3))
  \/ Is("SetBlocked") /\ SetBlocked(ew, A(1))
  \/ Is("JoinSet") /\ JoinSet(ew, A(1), A(2))
  \/ Is("JoinReap") /\ JoinReap(ew, A(1), A(2))
  \/ Is("U_JoinRet") /\ UJoinRet(ew, A(1), A(2), A(3), A(4))
  \/ Is("U_TryJoinCall") /\ UTryJoinCall(ew, A(1), A(2))
  \/ Is("TryJoinChk") /\ TryJoinChk(ew, A(1), A(2), A(3))
  \/ Is("U_TryJoinRet") /\ UTryJoinRet(ew, A(1), A(2), A(3), A(4), A(5))
  \/ Is("U_DetachCall") /\ UDetachCall(ew, A(1), A(2))
  \/ Is("DetachQuick") /\ DetachQuick(ew, A(1), A(2))
  \/ Is("DetachChk") /\ DetachChk(ew, A(1), A(2))
  \/ Is("SetDetached") /\ SetDetached(ew, A(1))
  \/ Is("U_DetachRet") /\ UDetachRet(ew, A(1), A(2))
  \/ Is("U_YieldCall") /\ UYieldCall(ew, A(1), A(2))
  \/ Is("U_YieldRet") /\ UYieldRet(ew, A(1))
  \/ Is("U_MainEnd") /\ UMainEnd(ew)

TSpec == TInit /\ [][TNext]_tvars

\* the whole file was consumed
TraceAccepted ==
  LET d == TLCGet("stats").diameter IN
  /\ PrintT(<<"MATCHED", d - 1, "OF", Len(Tr)>>)
  /\ d - 1 = Len(Tr)
=============================================================================
