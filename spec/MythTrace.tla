----------------------------- MODULE MythTrace -----------------------------
(* Trace validation: every recorded event of a hooked run must be an enabled step of
   the corresponding Myth action, and every invariant must hold in every state. *)
EXTENDS Myth, Json, IOUtils

Tr == ndJsonDeserialize(IOEnv.TRACE)
VARIABLE l
tvars == <<corevars, l>>
E == Tr[l]
A(i) == E.a[i]
ew == E.w
Is(name) == l <= Len(Tr) /\ E.e = name /\ l' = l + 1

TInit == CoreInit /\ l = 1

TNext ==
  \/ Is("Reset") /\ CoreReset
  \/ Is("Arm") /\ Arm(A(1), A(2), A(3))
  \/ Is("Disarm") /\ UNCHANGED corevars
  \/ Is("QPop") /\ QPop(ew, A(1), A(2))
  \/ Is("QTake") /\ QTake(ew, A(1), A(2))
  \/ Is("QPush") /\ QPush(ew, A(1), A(2))
  \/ Is("QPut") /\ QPut(ew, A(1), A(2))
  \/ Is("SchedRun") /\ SchedRun(ew, A(1))
  \/ Is("SpinAcq") /\ SpinAcq(ew, A(1))
  \/ Is("SpinRel") /\ SpinRel(ew, A(1))
  \/ Is("U_CreateCall") /\ UCreateCall(ew, A(1), A(2), A(3))
  \/ Is("DescAlloc") /\ DescAlloc(ew, A(1), A(2), A(3), A(4))
  \/ Is("StackAlloc") /\ StackAlloc(ew, A(1), A(2), A(3), A(4), A(5), A(6))
  \/ Is("CreateCF") /\ CreateCF(ew, A(1), A(2), A(3), A(4), A(5))
  \/ Is("CreatePF") /\ CreatePF(ew, A(1), A(2), A(3), A(4), A(5))
  \/ Is("U_CreateRet") /\ UCreateRet(ew, A(1), A(2))
  \/ Is("CbEnter") /\ CbEnter(ew, A(1), A(2))
  \/ Is("CbExit") /\ CbExit(ew)
  \/ Is("ThreadEntry") /\ ThreadEntry(ew, A(1))
  \/ Is("U_BodyStart") /\ UBodyStart(ew, A(1), A(2))
  \/ Is("U_BodyEnd") /\ UBodyEnd(ew, A(1), A(2), A(3))
  \/ Is("FinWaiter") /\ FinWaiter(ew, A(1), A(2))
  \/ Is("StackFree") /\ StackFree(ew, A(1), A(2), A(3), A(4))
  \/ Is("FinDet") /\ FinDet(ew, A(1), A(2))
  \/ Is("Publish") /\ Publish(ew, A(1))
  \/ Is("DescFree") /\ DescFree(ew, A(1), A(2))
  \/ Is("U_JoinCall") /\ UJoinCall(ew, A(1), A(2))
  \/ Is("JoinChk") /\ JoinChk(ew, A(1), A(2), A(3))
  \/ Is("SetBlocked") /\ SetBlocked(ew, A(1))
  \/ Is("JoinSet") /\ JoinSet(ew, A(1), A(2))
  \/ Is("JoinReap") /\ JoinReap(ew, A(1), A(2))
  \/ Is("U_JoinRet") /\ UJoinRet(ew, A(1), A(2), A(3), A(4))
  \/ Is("U_TryJoinCall") /\ UTryJoinCall(ew, A(1), A(2))
  \/ Is("TryJoinChk") /\ TryJoinChk(ew, A(1), A(2), A(3))
  \/ Is("U_TryJoinRet") /\ UTryJoinRet(ew, A(1), A(2), A(3), A(4), A(5))
  \/ Is("U_DetachCall") /\ UDetachCall(ew, A(1), A(2))
  \/ Is("DetachQuick") /\ DetachQuick(ew, A(1), A(2))
  \/ Is("DetachChk") /\ DetachChk(ew, A(1), A(2))
  \/ Is("SetDetached") /\ SetDetached(ew, A(1))
  \/ Is("U_DetachRet") /\ UDetachRet(ew, A(1), A(2))
  \/ Is("U_YieldCall") /\ UYieldCall(ew, A(1), A(2))
  \/ Is("U_YieldRet") /\ UYieldRet(ew, A(1))
  \/ Is("U_MainEnd") /\ UMainEnd(ew)
  \/ Is("YieldBeg") /\ YieldBeg(ew, A(1), A(2))
  \/ Is("YieldEnd") /\ YieldEnd(ew, A(1))
  \* ---- synchronisation primitives
  \/ Is("Block") /\ Block(ew, A(1), A(2), A(3))
  \/ Is("SqEnq") /\ SqEnq(ew, A(1), A(2))
  \/ Is("SqDeq") /\ SqDeq(ew, A(1), A(2))
  \/ Is("StPush") /\ StPush(ew, A(1), A(2))
  \/ Is("StPop") /\ StPop(ew, A(1), A(2))
  \/ Is("MxLd") /\ MxLd(ew, A(1), A(2), A(3))
  \/ Is("MxCas") /\ MxCas(ew, A(1), A(2), A(3), A(4))
  \/ Is("MxWake") /\ MxWake(ew, A(1), A(2))
  \/ Is("MxClr") /\ MxClr(ew, A(1))
  \/ Is("U_LockCall") /\ ULockCall(ew, A(1), A(2))
  \/ Is("U_LockRet") /\ ULockRet(ew, A(1), A(2))
  \/ Is("U_TryLockCall") /\ UTryLockCall(ew, A(1), A(2))
  \/ Is("U_TryLockRet") /\ UTryLockRet(ew, A(1), A(2), A(3))
  \/ Is("U_UnlockCall") /\ UUnlockCall(ew, A(1), A(2))
  \/ Is("U_UnlockRet") /\ UUnlockRet(ew, A(1), A(2))
  \/ Is("U_CondWaitCall") /\ UCondWaitCall(ew, A(1), A(2), A(3))
  \/ Is("CvWait") /\ CvWait(ew, A(1), A(2), A(3))
  \/ Is("U_CondWaitRet") /\ UCondWaitRet(ew, A(1), A(2), A(3))
  \/ Is("U_CondSignalCall") /\ UCondSignalCall(ew, A(1), A(2), A(3))
  \/ Is("CvSignal") /\ CvSignal(ew, A(1), A(2), A(3))
  \/ Is("U_CondSignalRet") /\ UCondSignalRet(ew, A(1), A(2))
  \/ Is("U_BarrierCall") /\ UBarrierCall(ew, A(1), A(2))
  \/ Is("BrLd") /\ BrLd(ew, A(1), A(2), A(3))
  \/ Is("BrCas") /\ BrCas(ew, A(1), A(2), A(3))
  \/ Is("BrReset") /\ BrReset(ew, A(1))
  \/ Is("BrWake") /\ BrWake(ew, A(1), A(2), A(3))
  \/ Is("U_BarrierRet") /\ UBarrierRet(ew, A(1), A(2), A(3), A(4))
  \/ Is("JcInit") /\ JcInit(ew, A(1), A(2), A(3), A(4))
  \/ Is("U_JcWaitCall") /\ UJcWaitCall(ew, A(1), A(2))
  \/ Is("JcLd") /\ JcLd(ew, A(1), A(2), A(3), A(4), A(5))
  \/ Is("JcCas") /\ JcCas(ew, A(1), A(2), A(3), A(4))
  \/ Is("JcWake") /\ JcWake(ew, A(1), A(2), A(3))
  \/ Is("U_JcWaitRet") /\ UJcWaitRet(ew, A(1), A(2), A(3))
  \/ Is("U_JcDecCall") /\ UJcDecCall(ew, A(1), A(2))
  \/ Is("U_JcDecRet") /\ UJcDecRet(ew, A(1), A(2))
  \/ Is("U_UcWaitCall") /\ UUcWaitCall(ew, A(1), A(2))
  \/ Is("UcPub") /\ UcPub(ew, A(1), A(2))
  \/ Is("U_UcWaitRet") /\ UUcWaitRet(ew, A(1), A(2))
  \/ Is("U_UcSignalCall") /\ UUcSignalCall(ew, A(1), A(2))
  \/ Is("UcLd") /\ UcLd(ew, A(1), A(2))
  \/ Is("UcClr") /\ UcClr(ew, A(1))
  \/ Is("U_UcSignalRet") /\ UUcSignalRet(ew, A(1), A(2))
  \/ Is("U_OnceCall") /\ UOnceCall(ew, A(1), A(2))
  \/ Is("OnLd") /\ OnLd(ew, A(1), A(2))
  \/ Is("OnCas") /\ OnCas(ew, A(1), A(2))
  \/ Is("U_OnceBody") /\ UOnceBody(ew, A(1))
  \/ Is("U_OnceBodyEnd") /\ UOnceBodyEnd(ew, A(1))
  \/ Is("OnDone") /\ OnDone(ew, A(1))
  \/ Is("U_OnceRet") /\ UOnceRet(ew, A(1), A(2))

TSpec == TInit /\ [][TNext]_tvars

\* the whole file was consumed
TraceAccepted ==
  LET d == TLCGet("stats").diameter IN
  /\ PrintT(<<"MATCHED", d - 1, "OF", Len(Tr)>>)
  /\ d - 1 = Len(Tr)
=============================================================================
