------------------------------ MODULE MC_Sync ------------------------------
(* Exhaustive design exploration of the synchronisation primitives on top of the scheduler
   core.  The main thread creates NT children (child-first), each child runs the scenario
   program SCN, the main thread joins them.  Every parameter of every library action is
   quantified existentially; the scenario only decides which API call a thread makes next.
     SCN = "mutex"   : K rounds of (lock | trylock) ... unlock on mutex 1
           "cond"    : bounded buffer of capacity 1 (mutex 1, cond 1 = not full, cond 2 = not empty),
                       odd tags produce K items, even tags consume K items
           "gate"    : tag 1 opens a gate with a broadcast, the others wait for it
           "barrier" : every child waits K times on barrier 1 (NT participants)
           "jc"      : children 1..ND decrement join counter 1 (ND decrements), the others wait on it
           "uncond"  : single-slot mailbox over uncond 1 (documented protocol): tag 1 puts K items, tag 2 gets K
           "once"    : every child calls once(1); the init routine yields
           "felock"  : odd tags produce K items through full/empty lock 1, even tags consume K items *)
EXTENDS Myth

CONSTANTS SCN, NT, K, ND, BCAST

VARIABLES upc,    \* upc[tag] : scenario program counter of the thread
          env     \* shared program data (buffer count, mailbox word, gate flag)
mvars == <<corevars, upc, env>>

M1 == 1  C1 == 1  C2 == 2  B1 == 1  J1 == 1  U1 == 1  O1 == 1
Q_M == 1  Q_C1 == 2  Q_C2 == 3  Q_B == 4  Q_J == 5       \* sleep queue ids of the objects above

MInit ==
  /\ got = got0 /\ cb = cb0 /\ runq = runq0 /\ lk = lk0 /\ stk = stk0
  /\ freeD = freeD0 /\ freeS = freeS0 /\ flS = flS0
  /\ nD = 1 /\ nS = 0 /\ nL = 0 /\ anw = NW /\ bad = "ok"
  /\ cur = [w \in W |-> IF w = 0 THEN 1 ELSE 0]
  /\ th = [d \in D |-> IF d = 1 THEN [NoTh EXCEPT !.st = "ready", !.pc = User, !.tag = 0] ELSE NoTh]
  /\ tg = [t \in Tag |-> IF t = 0 THEN [NoTg EXCEPT !.d = 1, !.hs = "main", !.ran = 1] ELSE NoTg]
  /\ mx = mx0 /\ sq = sq0 /\ ob = ob0
  /\ gh = [gh0 EXCEPT !.qmx[M1] = Q_M, !.qcv[C1] = Q_C1, !.qcv[C2] = Q_C2, !.qbr[B1] = Q_B, !.qjc[J1] = Q_J]
  /\ upc = [t \in Tag |-> [k |-> 0, i |-> 0]]
  /\ env = [cnt |-> 0, word |-> 0, gate |-> 0, item |-> 0, held |-> [t \in Tag |-> {}], tix |-> 0]

NextTag == CHOOSE t \in Tag : tg[t].hs = "none" /\ \A u \in Tag : tg[u].hs = "none" => t <= u
CanCreate == \E t \in Tag : tg[t].hs = "none"
Children(tag) == {c \in Tag : tg[c].par = tag}
Adv(tag, k, di) == upc' = [upc EXCEPT ![tag] = [k |-> k, i |-> @.i + di]]
Same == UNCHANGED <<upc, env>>

\* ---- scenario programs: what thread `tag` (descriptor t, on worker w, at user level) calls next
Mutex(w, t, tag) ==
  IF gh.mown[M1] = t THEN UUnlockCall(w, tag, M1) /\ Adv(tag, 0, 1) /\ UNCHANGED env
  ELSE IF upc[tag].i < K THEN (ULockCall(w, tag, M1) \/ UTryLockCall(w, tag, M1)) /\ Same
  ELSE UBodyEnd(w, tag, 1000 + tag, 0) /\ Same

Cond(w, t, tag) ==
  LET prod == tag % 2 = 1 IN
  CASE upc[tag].k = 0 ->
         IF upc[tag].i < K THEN ULockCall(w, tag, M1) /\ Adv(tag, 1, 0) /\ UNCHANGED env
         ELSE UBodyEnd(w, tag, 1000 + tag, 0) /\ Same
    [] upc[tag].k = 1 ->      \* holding the mutex: test the predicate
         IF prod THEN IF env.cnt = 1 THEN UCondWaitCall(w, tag, C1, M1) /\ Same
                      ELSE UCondSignalCall(w, tag, C2, BCAST) /\ env' = [env EXCEPT !.cnt = 1] /\ Adv(tag, 2, 0)
         ELSE IF env.cnt = 0 THEN UCondWaitCall(w, tag, C2, M1) /\ Same
              ELSE UCondSignalCall(w, tag, C1, BCAST) /\ env' = [env EXCEPT !.cnt = 0] /\ Adv(tag, 2, 0)
    [] upc[tag].k = 2 -> UUnlockCall(w, tag, M1) /\ Adv(tag, 0, 1) /\ UNCHANGED env

Gate(w, t, tag) ==
  CASE upc[tag].k = 0 -> ULockCall(w, tag, M1) /\ Adv(tag, 1, 0) /\ UNCHANGED env
    [] upc[tag].k = 1 ->
         IF tag = 1 THEN UCondSignalCall(w, tag, C1, BCAST) /\ env' = [env EXCEPT !.gate = 1] /\ Adv(tag, 2, 0)
         ELSE IF env.gate = 0 THEN UCondWaitCall(w, tag, C1, M1) /\ Same
              ELSE UUnlockCall(w, tag, M1) /\ Adv(tag, 3, 0) /\ UNCHANGED env
    [] upc[tag].k = 2 -> UUnlockCall(w, tag, M1) /\ Adv(tag, 3, 0) /\ UNCHANGED env
    [] upc[tag].k = 3 -> UBodyEnd(w, tag, 1000 + tag, 0) /\ Same

Barrier(w, t, tag) ==
  IF upc[tag].i < K THEN UBarrierCall(w, tag, B1) /\ Adv(tag, 0, 1) /\ UNCHANGED env
  ELSE UBodyEnd(w, tag, 1000 + tag, 0) /\ Same

Jc(w, t, tag) ==
  IF upc[tag].i = 0 THEN (IF tag <= ND THEN UJcDecCall(w, tag, J1) ELSE UJcWaitCall(w, tag, J1)) /\ Adv(tag, 0, 1) /\ UNCHANGED env
  ELSE UBodyEnd(w, tag, 1000 + tag, 0) /\ Same

\* mailbox word: 0 empty, 1 full, +2 somebody sleeping (tests/myth_uncond_signal.c)
Uncond(w, t, tag) ==
  LET put == tag = 1  wd == env.word IN
  CASE upc[tag].k = 0 ->
         IF upc[tag].i >= K THEN UBodyEnd(w, tag, 1000 + tag, 0) /\ Same
         ELSE IF put = (wd % 2 = 1)
              THEN \* cannot proceed: announce that I sleep (atomically), then wait
                   /\ env' = [env EXCEPT !.word = wd + 2] /\ UUcWaitCall(w, tag, U1) /\ UNCHANGED upc
              ELSE \* proceed: fill / empty the slot; wake the sleeper if there is one
                   /\ env' = [env EXCEPT !.word = IF put THEN 1 ELSE 0]
                   /\ IF wd >= 2 THEN UUcSignalCall(w, tag, U1) /\ Adv(tag, 0, 1)
                      ELSE UNCHANGED corevars /\ Adv(tag, 0, 1)         \* (a step of the program itself)

Once(w, t, tag) ==
  IF th[t].rs # <<>> /\ Head(th[t].rs).k = "on3"          \* inside the init routine
  THEN IF upc[tag].k = 0 THEN UYieldCall(w, tag, 0) /\ Adv(tag, 1, 0) /\ UNCHANGED env
       ELSE UOnceBodyEnd(w, O1) /\ Adv(tag, 0, 0) /\ UNCHANGED env
  ELSE IF upc[tag].i < K THEN UOnceCall(w, tag, O1) /\ Adv(tag, 0, 1) /\ UNCHANGED env
       ELSE UBodyEnd(w, tag, 1000 + tag, 0) /\ Same

\* full/empty lock 1 built from mutex M1 and conditions C1 (status 0) / C2 (status 1):
\* odd tags produce (wait for empty, mark full), even tags consume (wait for full, mark empty)
Felock(w, t, tag) ==
  LET rd   == SCN = "felockr"                  \* readers scenario: tag 1 fills once, every other tag reads (waits for full, marks full again)
      prod == IF rd THEN tag = 1 ELSE tag % 2 = 1
      want == IF prod THEN 0 ELSE 1
      mark == IF rd THEN 1 ELSE 1 - want
      rounds == IF rd /\ prod THEN 1 ELSE K IN
  IF upc[tag].k = 0
  THEN IF upc[tag].i < rounds THEN UFeWaitLockCall(w, tag, 1, want, M1, IF want = 0 THEN C1 ELSE C2) /\ Adv(tag, 1, 0) /\ UNCHANGED env
       ELSE UBodyEnd(w, tag, 1000 + tag, 0) /\ Same
  ELSE UFeMarkCall(w, tag, 1, mark, M1, IF mark = 0 THEN C1 ELSE C2) /\ Adv(tag, 0, 1) /\ UNCHANGED env

\* thread-specific keys: every child makes K calls, each a key creation or the deletion of a key it created
\* (env.held[tag] = keys the thread currently owns: updated when the call returns, see KeyRet)
Keys(w, t, tag) ==
  IF upc[tag].i < K
  THEN /\ Adv(tag, 1, 1) /\ UNCHANGED env
       /\ \/ UKeyCreateCall(w, tag, 1)
          \/ \E k \in env.held[tag] : UKeyDeleteCall(w, tag, k)
  ELSE UBodyEnd(w, tag, 1000 + tag, 0) /\ Same

\* sleeping and timed waits against a virtual clock (env.tix, advanced by Tick):
\* tag 1 sleeps for REQ ticks, then calls nanosleep with a malformed duration; tag 2 holds mutex M1 across a
\* yield; tag 3 tries timedlock(M1) with a deadline DL ticks ahead
REQ == 1  DL == 1
Timed(w, t, tag) ==
  CASE tag = 1 ->
         CASE upc[tag].i = 0 -> UNanosleepCall(w, tag, 0, REQ) /\ upc' = [upc EXCEPT ![tag] = [k |-> env.tix, i |-> 1]] /\ UNCHANGED env
           [] upc[tag].i = 1 -> UNanosleepCall(w, tag, 0, -1) /\ Adv(tag, upc[tag].k, 1) /\ UNCHANGED env
           [] OTHER -> UBodyEnd(w, tag, 1000 + tag, 0) /\ Same
    [] tag = 2 ->
         CASE upc[tag].i = 0 -> ULockCall(w, tag, M1) /\ Adv(tag, 0, 1) /\ UNCHANGED env
           [] upc[tag].i = 1 -> UYieldCall(w, tag, 2) /\ Adv(tag, 0, 1) /\ UNCHANGED env
           [] upc[tag].i = 2 -> UUnlockCall(w, tag, M1) /\ Adv(tag, 0, 1) /\ UNCHANGED env
           [] OTHER -> UBodyEnd(w, tag, 1000 + tag, 0) /\ Same
    [] OTHER ->
         CASE upc[tag].i = 0 -> UTimedLockCall(w, tag, M1, 0, env.tix + DL) /\ upc' = [upc EXCEPT ![tag] = [k |-> env.tix + DL, i |-> 1]] /\ UNCHANGED env
           [] upc[tag].i = 1 /\ gh.mown[M1] = t -> UUnlockCall(w, tag, M1) /\ Adv(tag, upc[tag].k, 1) /\ UNCHANGED env
           [] OTHER -> UBodyEnd(w, tag, 1000 + tag, 0) /\ Same

Scenario(w, t, tag) ==
  CASE SCN = "mutex" -> Mutex(w, t, tag) [] SCN = "cond" -> Cond(w, t, tag) [] SCN = "gate" -> Gate(w, t, tag)
    [] SCN = "barrier" -> Barrier(w, t, tag) [] SCN = "jc" -> Jc(w, t, tag) [] SCN = "uncond" -> Uncond(w, t, tag)
    [] SCN = "once" -> Once(w, t, tag) [] SCN \in {"felock", "felockr"} -> Felock(w, t, tag) [] SCN = "keys" -> Keys(w, t, tag) [] SCN = "timed" -> Timed(w, t, tag)

UserStep(w) ==
  \E t \in D : At(w, t, "user") /\
    LET tag == th[t].tag IN
    IF tag = 0
    THEN /\ Same
         /\ \/ CanCreate /\ UCreateCall(w, 0, NextTag, 0)
            \/ ~CanCreate /\ \E c \in Children(0) : UJoinCall(w, 0, c)
            \/ ~CanCreate /\ (\A c \in Tag : c # 0 => tg[c].hs = "reaped") /\ UMainEnd(w)
    ELSE Scenario(w, t, tag)

\* returns of key calls update the program's own record of the keys it holds
KeyRet(w) ==
  /\ UNCHANGED upc
  /\ \E t \in Tag :
       \/ \E k \in 0..(NKeys - 1) : UKeyCreateRet(w, t, 0, k) /\ env' = [env EXCEPT !.held[t] = @ \cup {k}]
       \/ UKeyCreateRet(w, t, 22, -1) /\ env' = env
       \/ \E k \in 0..(NKeys - 1), rc \in {0, 22} : UKeyDeleteRet(w, t, k, rc) /\ env' = [env EXCEPT !.held[t] = @ \ {k}]

CoreLib(w) ==
     \/ \E n \in D : QPop(w, w, n) \/ SchedRun(w, n)
     \/ \E v \in W, n \in D : QTake(w, v, n)
     \/ \E d \in D : QPush(w, w, d) \/ QPut(w, w, d) \/ DescFree(w, w, d)
     \/ \E l \in L : SpinAcq(w, l) \/ SpinRel(w, l)
     \/ \E c \in D, l \in L, f \in {0, 1} : DescAlloc(w, w, c, l, f)
     \/ \E s \in S, k \in {0, 1} : StackAlloc(w, w, s, 2 * s, 2 * s + 1, k, 0)
     \/ \E c \in D : MkCtx(w, c, 0, 1)
     \/ \E p, c \in D, s \in S : CreateCF(w, p, c, s, 0, 0)
     \/ \E pt, ct \in Tag : UCreateRet(w, pt, ct) \/ UJoinRet(w, pt, ct, tg[ct].endv, tg[ct].cell)
     \/ \E k \in {1, 2, 3, 4, 5, 6, 8, 9, 10} : CbEnter(w, k, 0)
     \/ CbExit(w)
     \/ \E t \in Tag : UBodyStart(w, t, 7700 + t) \/ UYieldRet(w, t)
     \/ \E t \in D, o \in 0..4 : YieldBeg(w, t, o)
     \/ \E t \in D : YieldEnd(w, t)
     \/ \E t, j \in D : FinWaiter(w, t, j) \/ JoinSet(w, t, j)
     \/ \E s \in S : StackFree(w, w, s, 0, 0)
     \/ \E t \in D, b \in {0, 1} : FinDet(w, t, b)
     \/ \E t \in D : Publish(w, t) \/ SetBlocked(w, t)
     \/ \E j, t \in D, b \in {0, 1} : JoinChk(w, j, t, b)
     \/ \E t \in D : JoinReap(w, t, th[t].res)
     \/ \E t \in D, q \in Q, m \in {-U1, 0, M1} : Block(w, t, q, m)
     \/ \E q \in Q, d \in D : SqEnq(w, q, d) \/ SqDeq(w, q, d) \/ StPush(w, q, d) \/ StPop(w, q, d)

MutexLib(w) ==
     \/ \E s \in 0..(2 * NT + 3), kind \in {0, 1, 2} : MxLd(w, M1, s, kind)
     \/ \E e \in 0..(2 * NT + 3), d \in {-2, 1, 2, -1}, ok \in {0, 1} : MxCas(w, M1, e, e + d, ok)
     \/ MxWake(w, M1, Q_M) \/ MxClr(w, M1)
     \/ \E t \in Tag : ULockRet(w, t, M1) \/ UUnlockRet(w, t, M1) \/ (\E rc \in {0, 16} : UTryLockRet(w, t, M1, rc))
CondLib(w) ==
     \/ \E c \in {C1, C2} : CvWait(w, c, c + 1, M1) \/ (\E bc \in {0, 1} : CvSignal(w, c, c + 1, bc))
     \/ \E t \in Tag, c \in {C1, C2} : UCondWaitRet(w, t, c, M1) \/ UCondSignalRet(w, t, c)
BarrierLib(w) ==
     \/ \E c \in 0..NT : BrLd(w, B1, c, NT) \/ (\E ok \in {0, 1} : BrCas(w, B1, c, ok)) \/ BrWake(w, B1, Q_B, c)
     \/ BrReset(w, B1)
     \/ \E t \in Tag, rc \in {0, 1} : UBarrierRet(w, t, B1, rc, NT)
JcLib(w) ==
     \/ \E sd \in 0..ND, sw \in 0..(NT + 1), kind \in {0, 1} : JcLd(w, J1, sd, kind, ND, CalcBits(ND), sw)
     \/ \E ed \in 0..ND, ew \in 0..(NT + 1), ok \in {0, 1} : JcCas(w, J1, ed, ew, ed, ew + 1, ok) \/ JcCas(w, J1, ed, ew, ed + 1, ew, ok)
     \/ \E k \in 0..NT : JcWake(w, J1, Q_J, k)
     \/ \E t \in Tag : UJcWaitRet(w, t, J1, ND) \/ UJcDecRet(w, t, J1)
UncondLib(w) ==
     \/ \E d \in D : UcPub(w, U1, d) \/ UcLd(w, U1, d)
     \/ \E d \in D \cup {0} : UcCbLd(w, U1, d)
     \/ UcClr(w, U1, 0)
     \/ \E t \in Tag : UUcWaitRet(w, t, U1) \/ UUcSignalRet(w, t, U1)
OnceLib(w) ==
     \/ \E s \in 0..2 : OnLd(w, O1, s)
     \/ \E ok \in {0, 1} : OnCas(w, O1, ok)
     \/ UOnceBody(w, O1) \/ OnDone(w, O1)
     \/ \E t \in Tag : UOnceRet(w, t, O1)
FelockLib(w) ==
     \/ \E st, want \in {0, 1} : FeChk(w, 1, st, want) \/ FeMark(w, 1, st)
     \/ \E t \in Tag, st \in {0, 1} : UFeWaitLockRet(w, t, 1, st) \/ UFeMarkRet(w, t, 1, st)
TimedLib(w) ==
     \/ Clock(w, 0, env.tix)
     \/ \E t \in Tag, rc \in {0, 22} : UNanosleepRet(w, t, rc)
     \/ \E t \in Tag, rc \in {0, 110} : UTimedLockRet(w, t, M1, rc)
\* the virtual clock advances on its own
TMAX == 3
Tick == env.tix < TMAX /\ env' = [env EXCEPT !.tix = @ + 1] /\ UNCHANGED <<corevars, upc>>
KeysLib(w) ==
     \/ KaLock(w) \/ KaUnlock(w)
     \/ \E h \in -1..(NKeys - 1) : KaLd(w, h)
     \/ \E h \in 0..(NKeys - 1), nx \in -2..(NKeys - 1), ok \in {0, 1} : KaNext(w, h, nx) \/ KaCas(w, h, nx, ok)
     \/ \E k \in 0..(NKeys - 1), h \in -1..(NKeys - 1), ok \in {0, 1} : KdLd(w, k, h) \/ KdCas(w, k, h, ok)

\* only the actions of the primitives the scenario uses are offered (the others are never enabled anyway)
LibStep(w) ==
  /\ Same
  /\ \/ CoreLib(w)
     \/ SCN \in {"mutex", "cond", "gate", "felock", "felockr"} /\ MutexLib(w)
     \/ SCN \in {"cond", "gate", "felock", "felockr"} /\ CondLib(w)
     \/ SCN = "barrier" /\ BarrierLib(w)
     \/ SCN = "jc" /\ JcLib(w)
     \/ SCN = "uncond" /\ UncondLib(w)
     \/ SCN = "once" /\ OnceLib(w)
     \/ SCN \in {"felock", "felockr"} /\ FelockLib(w)
     \/ SCN = "keys" /\ KeysLib(w)
     \/ SCN = "timed" /\ (TimedLib(w) \/ MutexLib(w))

MutFeNoSignal == "fe_nosignal"
MutOnceCompletedWins == "once_completed_wins"
Finished == \E w \in W : cur[w] # 0 /\ th[cur[w]].tag = 0 /\ th[cur[w]].pc.k = "done"
AllReaped == \A t \in Tag : t # 0 /\ tg[t].hs # "none" => tg[t].reaped = 1
Terminated == Finished /\ AllReaped /\ UNCHANGED mvars
MNext == (\E w \in W : UserStep(w) \/ LibStep(w) \/ KeyRet(w)) \/ Terminated \/ (SCN = "timed" /\ Tick)
MSpec == MInit /\ [][MNext]_mvars
MFairSpec == MSpec /\ \A w \in W : WF_mvars(UserStep(w) \/ LibStep(w) \/ KeyRet(w))
Termination == <>Finished

\* ---- structural invariants of the primitives
\* C04: seats accounting -- the queued count in the mutex word equals the threads that are in the sleep
\* queue or have reserved a seat and not yet entered it, minus those already dequeued by an unlocker
\* that has not yet cleared the lock bit
Reserved(m) == Cardinality({t \in D : t # 0 /\ ((th[t].pc.k = "ml2" /\ th[t].pc.x = m)
                                               \/ (th[t].pc.k \in {"blk0", "blk1"} /\ th[t].rs # <<>> /\ Head(th[t].rs).k = "ml0"
                                                   /\ Head(th[t].rs).x = m /\ th[t].pc.y = 0))})
              + Cardinality({w \in W : cb[w].k = "block" /\ cb[w].s = 0 /\ cb[w].m = 0 /\ cb[w].x = Q_M /\ m = M1})
Unlockers(m) == Cardinality({t \in D : t # 0 /\ \E w \in W : Runs(w, t) /\ th[t].pc.k \in {"mu2", "wo0"} /\
                                          (IF th[t].pc.k = "mu2" THEN th[t].pc.x ELSE th[t].pc.y) = m})
              + Cardinality({w \in W : InCb(w) /\ cb[w].p.k \in {"mu2", "wo0"} /\ (IF cb[w].p.k = "mu2" THEN cb[w].p.x ELSE cb[w].p.y) = m})
SeatsAccount == mx[M1] \div 2 = Len(sq[Q_M]) + Reserved(M1) - Unlockers(M1)
\* a thread dequeued by an unlocker is not runnable anywhere while that unlocker still holds the lock bit
\* C20 (design): the sleeper is back at user level only after more than REQ ticks have passed since the call;
\* a timedlock that reported a timeout did so after its deadline
SleepNoEarly == \A t \in D : (th[t].st # "none" /\ th[t].tag = 1 /\ th[t].pc.k = "user" /\ upc[1].i = 1) => env.tix > upc[1].k + REQ
TimeoutNotEarly == \A t \in D : (th[t].st # "none" /\ th[t].tag = 3 /\ th[t].pc.k = "tl9" /\ th[t].pc.y = 110) => env.tix > upc[3].k
MutualExclusion == Cardinality({t \in D : t # 0 /\ gh.mown[M1] = t}) <= 1
=============================================================================
