SPECIFICATION SpecH
CONSTANTS Pushers = {"a", "b", "c"}
 NItems = 6
 MUTANT = "none"
 MaxPops = 12
INVARIANT Dump
INVARIANT NoDup
INVARIANT NoLossAlways
CONSTRAINT Bound
CHECK_DEADLOCK FALSE
