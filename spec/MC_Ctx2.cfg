SPECIFICATION Spec
CONSTANTS Threads = {"a", "b", "c"}
 PFThreads = {"c"}
 Workers = {0, 1}
 MaxSwitches = 3
 InitCFpar = 0
 InitPFpar = 0
INVARIANT OK
CHECK_DEADLOCK FALSE
