------------------------------ MODULE EnvParse ------------------------------
(***************************************************************************)
(* Reference semantics of the configuration environment variables (C15).   *)
(*                                                                         *)
(* MYTH_CPU_LIST:  list  ::= range ("," range)*                            *)
(*                 range ::= int | int "-" int | int "-" int ":" int       *)
(*   a       denotes {a};  a-b denotes a, a+1, .. , b-1;  a-b:c denotes    *)
(*   a, a+c, .. (< b).  A value that is not in the language, or that       *)
(*   denotes more than CAP numbers, is MALFORMED and must simply be        *)
(*   ignored (never a crash or a hang).                                    *)
(* Numeric variables (MYTH_NUM_WORKERS, MYTH_DEF_STKSIZE, ...): the value  *)
(*   is the decimal prefix (optional sign) of the string as atoi reads     *)
(*   it; unset, non-numeric or not positive means "use the default".       *)
(*                                                                         *)
(* The state space of this module is the set of all strings of length      *)
(* <= MaxLen over Alphabet; TLC enumerates it and prints, for every        *)
(* string, the expected outcome; the unit harness runs the real parser on  *)
(* each string and the outcomes are compared.                              *)
(***************************************************************************)
EXTENDS Integers, Sequences, TLC, Json

CONSTANTS MaxLen, CAP, Alphabet

VARIABLE str
IsDigit(c) == c \in {"0", "1", "2", "3", "4", "5", "6", "7", "8", "9"}
DigVal(c) == CASE c = "0" -> 0 [] c = "1" -> 1 [] c = "2" -> 2 [] c = "3" -> 3 [] c = "4" -> 4
               [] c = "5" -> 5 [] c = "6" -> 6 [] c = "7" -> 7 [] c = "8" -> 8 [] c = "9" -> 9
At(s, i) == IF i <= Len(s) THEN s[i] ELSE "END"

\* longest digit run starting at i: [n |-> number of digits, v |-> value]
RECURSIVE Digits(_, _, _, _)
Digits(s, i, n, v) == IF IsDigit(At(s, i)) THEN Digits(s, i + 1, n + 1, v * 10 + DigVal(At(s, i))) ELSE [n |-> n, v |-> v, next |-> i]

\* numbers denoted by a range, as a count and a generator (we only need the list up to CAP + 1 elements)
RECURSIVE Gen(_, _, _, _)
Gen(x, b, c, acc) == IF x >= b \/ Len(acc) > CAP THEN acc ELSE Gen(x + c, b, c, Append(acc, x))

Bad == [ok |-> FALSE, list |-> <<>>, next |-> 0]
\* one range starting at position i
Range(s, i) ==
  LET a == Digits(s, i, 0, 0) IN
  IF a.n = 0 THEN Bad
  ELSE IF At(s, a.next) # "-" THEN [ok |-> TRUE, list |-> <<a.v>>, next |-> a.next]
  ELSE LET b == Digits(s, a.next + 1, 0, 0) IN
       IF b.n = 0 THEN Bad
       ELSE IF At(s, b.next) # ":" THEN [ok |-> TRUE, list |-> Gen(a.v, b.v, 1, <<>>), next |-> b.next]
       ELSE LET c == Digits(s, b.next + 1, 0, 0) IN
            IF c.n = 0 THEN Bad
            ELSE IF c.v = 0 /\ a.v < b.v THEN Bad                \* a stride of 0 denotes no finite list
            ELSE [ok |-> TRUE, list |-> Gen(a.v, b.v, IF c.v = 0 THEN 1 ELSE c.v, <<>>), next |-> c.next]

RECURSIVE List(_, _, _)
List(s, i, acc) ==
  LET r == Range(s, i) IN
  IF ~r.ok THEN Bad
  ELSE LET l == acc \o r.list IN
       IF Len(l) > CAP THEN Bad
       ELSE IF At(s, r.next) = "," THEN List(s, r.next + 1, l)
       ELSE IF At(s, r.next) = "END" THEN [ok |-> TRUE, list |-> l, next |-> r.next]
       ELSE Bad                                                    \* junk after the list
CpuList(s) == LET r == List(s, 1, <<>>) IN IF r.ok THEN [ok |-> TRUE, n |-> Len(r.list), list |-> r.list] ELSE [ok |-> FALSE, n |-> -1, list |-> <<>>]

\* atoi: optional blanks, optional sign, digits; anything else ends the number; no digits => 0
RECURSIVE SkipBlank(_, _)
\* ("N" stands for a newline, "T" for a tab)
SkipBlank(s, i) == IF At(s, i) \in {" ", "T", "N"} THEN SkipBlank(s, i + 1) ELSE i
Atoi(s) ==
  LET i == SkipBlank(s, 1)
      neg == At(s, i) = "-"
      j == IF At(s, i) \in {"-", "+"} THEN i + 1 ELSE i
      d == Digits(s, j, 0, 0) IN
  IF neg THEN -d.v ELSE d.v
\* effective value of a "positive integer or default" variable (0 stands for "the default")
Numeric(s) == IF Atoi(s) <= 0 THEN 0 ELSE Atoi(s)

Init == str = <<>>
Next == Len(str) < MaxLen /\ \E c \in Alphabet : str' = Append(str, c)
Spec == Init /\ [][Next]_str

\* printed for every reachable string (the check collects these lines)
Emit == PrintT(<<"CASE", ToJson([s |-> str, cpu |-> CpuList(str), num |-> Numeric(str)])>>)
\* sanity properties of the reference semantics itself
WellFormed == LET r == CpuList(str) IN (r.ok => r.n <= CAP /\ \A i \in 1..Len(r.list) : r.list[i] >= 0)
=============================================================================
