---------------------------- MODULE WSQueue ----------------------------
(***************************************************************************)
(* Level-F specification of the work-stealing run queue (C02): one step    *)
(* per access to top / base / ptr[] / the queue lock, with the labels of   *)
(* the MYTH_VERIF_FPOINT hooks in src/myth_wsqueue_func.h.  One owner      *)
(* (push / pop / put) and thieves (take / trypass).  Memory is either      *)
(* sequentially consistent or x86-TSO (a FIFO store buffer per process,    *)
(* loads snoop the own buffer, locked instructions and full fences drain   *)
(* it).  The strength of the three barrier functions is a constant         *)
(* extracted from the compiled object code (tools/verif.py):               *)
(* "full" = drains the store buffer, "none" = compiler barrier only.       *)
(***************************************************************************)
EXTENDS Integers, Sequences, FiniteSets, TLC
CONSTANTS SIZE, Thieves, MaxOwnerOps, MaxThiefOps, TSO, SBMAX, INITBASE, OwnerOps, ThiefOps,
          FenceR, FenceRW     \* strength of myth_rbarrier / myth_rwbarrier: "full" or "none"
Owner == "o"
Procs == {Owner} \cup Thieves
VARIABLES top, base, ptr, lock,   \* shared memory
          sb,                      \* store buffers: p -> Seq([k,i,v])
          pc, loc,                 \* per-process control + locals
          nops, nextTok, inserted, removed, dup
vars == <<top, base, ptr, lock, sb, pc, loc, nops, nextTok, inserted, removed, dup>>
Idx == 0..(SIZE-1)
NoLoc == [t |-> 0, b |-> 0, v |-> 0, ret |-> 0]

\* ---------- memory model ----------
Latest(p, k, i, memv) ==
  LET s == sb[p]
      hits == {j \in 1..Len(s) : s[j].k = k /\ s[j].i = i}
  IN IF hits = {} THEN memv ELSE s[CHOOSE j \in hits : \A j2 \in hits : j2 <= j].v
LdTop(p)  == Latest(p, "top", 0, top)
LdBase(p) == Latest(p, "base", 0, base)
LdPtr(p,i) == Latest(p, "ptr", i, ptr[i])
St(p, k, i, v) ==
  IF TSO THEN /\ Len(sb[p]) < SBMAX
              /\ sb' = [sb EXCEPT ![p] = Append(@, [k |-> k, i |-> i, v |-> v])]
              /\ UNCHANGED <<top, base, ptr, lock>>
  ELSE /\ sb' = sb
       /\ top'  = IF k = "top" THEN v ELSE top
       /\ base' = IF k = "base" THEN v ELSE base
       /\ ptr'  = IF k = "ptr" THEN [ptr EXCEPT ![i] = v] ELSE ptr
       /\ lock' = IF k = "lock" THEN v ELSE lock
Flush(p) ==
            /\ TSO /\ sb[p] # <<>>
            /\ LET e == Head(sb[p]) IN
               /\ top'  = IF e.k = "top" THEN e.v ELSE top
               /\ base' = IF e.k = "base" THEN e.v ELSE base
               /\ ptr'  = IF e.k = "ptr" THEN [ptr EXCEPT ![e.i] = e.v] ELSE ptr
               /\ lock' = IF e.k = "lock" THEN e.v ELSE lock
            /\ sb' = [sb EXCEPT ![p] = Tail(@)]
            /\ UNCHANGED <<pc, loc, nops, nextTok, inserted, removed, dup>>
Drained(p) == sb[p] = <<>>
Goto(p, l) == pc' = [pc EXCEPT ![p] = l]
SetLoc(p, f, v) == loc' = [loc EXCEPT ![p][f] = v]
Hist == UNCHANGED <<nops, nextTok, inserted, removed, dup>>
NoMem == UNCHANGED <<top, base, ptr, lock, sb>>
\* lock acquire = locked xchg: needs drained buffer, atomic on memory
Acquire(p, l) ==
                 /\ Drained(p) /\ lock = 0 /\ lock' = 1 /\ Goto(p, l)
                 /\ UNCHANGED <<top, base, ptr, sb, loc>> /\ Hist
TryAcquire(p, lok, lfail) ==
                 /\ Drained(p)
                 /\ IF lock = 0 THEN lock' = 1 /\ Goto(p, lok) ELSE lock' = lock /\ Goto(p, lfail)
                 /\ UNCHANGED <<top, base, ptr, sb, loc>> /\ Hist
\* unlock = fence ; store lock := 0
UnlockF(p, l) == /\ (FenceRW = "full" => Drained(p)) /\ Goto(p, l) /\ NoMem /\ UNCHANGED loc /\ Hist
UnlockS(p, l) == /\ St(p, "lock", 0, 0) /\ Goto(p, l) /\ UNCHANGED loc /\ Hist
Fence(p, l) == /\ Drained(p) /\ Goto(p, l) /\ NoMem /\ UNCHANGED loc /\ Hist
\* a barrier function of the library: drains the buffer only if its compiled form is a full fence
Barrier(kind, p, l) == /\ (kind = "full" => Drained(p)) /\ Goto(p, l) /\ NoMem /\ UNCHANGED loc /\ Hist

Remove(tok) ==
               /\ removed' = removed \cup {tok}
               /\ dup' = (dup \/ tok \in removed \/ tok = 0)
Done(p) == /\ nops' = [nops EXCEPT ![p] = @ + 1]

\* ---------- operation start ----------
Start(p) ==
  /\ pc[p] = "idle" /\ nops[p] < (IF p = Owner THEN MaxOwnerOps ELSE MaxThiefOps)
  /\ \E op \in (IF p = Owner THEN OwnerOps ELSE ThiefOps) :
       /\ pc' = [pc EXCEPT ![p] = op]
       /\ IF op \in {"push", "put", "pass"}
          THEN /\ loc' = [loc EXCEPT ![p] = [NoLoc EXCEPT !.v = nextTok]]
               /\ nextTok' = nextTok + 1
          ELSE /\ loc' = [loc EXCEPT ![p] = NoLoc] /\ nextTok' = nextTok
  /\ NoMem /\ UNCHANGED <<nops, inserted, removed, dup>>

\* ---------- push (owner) ----------
Push1(p) ==
            /\ pc[p] = "push" /\ SetLoc(p, "t", LdTop(p))
            /\ Goto(p, "push_f") /\ NoMem /\ Hist
PushF(p) == /\ pc[p] = "push_f" /\ Barrier(FenceR, p, IF loc[p].t = SIZE THEN "push_lk" ELSE "push_w")
PushLk(p) == /\ pc[p] = "push_lk" /\ Acquire(p, "push_shift")
PushShift(p) ==
   /\ pc[p] = "push_shift"
   /\ LET b == LdBase(p)
          t == LdTop(p) IN
      IF b = 0 THEN Goto(p, "abort") /\ NoMem /\ UNCHANGED loc /\ Hist
      ELSE LET off == -((b + 1) \div 2) IN   \* (-b-1)/2 truncated toward zero
           /\ Drained(p)  \* we hold the lock and just acquired it with a locked op; model memmove atomically on memory
           /\ ptr' = [i \in Idx |-> IF i >= b + off /\ i < t + off THEN ptr[i - off] ELSE ptr[i]]
           /\ top' = t + off /\ base' = b + off /\ UNCHANGED <<lock, sb>>
           /\ SetLoc(p, "t", t + off) /\ Goto(p, "push_ulf") /\ Hist
PushUlF(p) == pc[p] = "push_ulf" /\ UnlockF(p, "push_uls")
PushUlS(p) == pc[p] = "push_uls" /\ UnlockS(p, "push_w")
PushW(p) ==
            /\ pc[p] = "push_w" /\ St(p, "ptr", loc[p].t, loc[p].v) /\ Goto(p, "push_top")
            /\ UNCHANGED loc /\ Hist
PushTop(p) ==
              /\ pc[p] = "push_top" /\ St(p, "top", 0, loc[p].t + 1) /\ Goto(p, "idle")
              /\ UNCHANGED loc /\ inserted' = inserted \cup {loc[p].v} /\ Done(p)
              /\ UNCHANGED <<nextTok, removed, dup>>

\* ---------- pop (owner) ----------
Pop0(p) ==
           /\ pc[p] = "pop" /\ NoMem /\ UNCHANGED loc
           /\ IF LdTop(p) <= LdBase(p)   \* QUICK_CHECK_ON_POP (two loads, modelled as one step: both owner-consistent)
              THEN Goto(p, "idle") /\ Done(p) /\ UNCHANGED <<nextTok, inserted, removed, dup>>
              ELSE Goto(p, "pop_dec") /\ Hist
PopDec(p) ==
                /\ pc[p] = "pop_dec"
                /\ LET t == LdTop(p) - 1 IN
                     /\ St(p, "top", 0, t) /\ SetLoc(p, "t", t) /\ Goto(p, "pop_f") /\ Hist
PopF(p) == pc[p] = "pop_f" /\ Barrier(FenceRW, p, "pop_ldb")
PopLdB(p) ==
               /\ pc[p] = "pop_ldb"
               /\ LET b == LdBase(p) IN
                    /\ SetLoc(p, "b", b) /\ NoMem /\ Hist
                    /\ Goto(p, IF b + 1 < loc[p].t THEN "pop_fast" ELSE "pop_lk")
PopFast(p) ==
              /\ pc[p] = "pop_fast" /\ Remove(LdPtr(p, loc[p].t)) /\ Goto(p, "idle")
              /\ NoMem /\ UNCHANGED loc /\ Done(p) /\ UNCHANGED <<nextTok, inserted>>
PopLk(p) == pc[p] = "pop_lk" /\ Acquire(p, "pop_slow")
PopSlow(p) == 
  /\ pc[p] = "pop_slow" 
  /\ LET b == LdBase(p)
         t == loc[p].t IN
    IF b <= t
    THEN /\ Remove(LdPtr(p, t)) /\ St(p, "ptr", t, 0) /\ Goto(p, "pop_ulf")
         /\ UNCHANGED <<loc, nops, nextTok, inserted>>
    ELSE /\ Goto(p, "pop_reset2") /\ St(p, "top", 0, SIZE \div 2) /\ UNCHANGED loc /\ Hist
PopReset2(p) ==
                /\ pc[p] = "pop_reset2" /\ St(p, "base", 0, SIZE \div 2) /\ Goto(p, "pop_ulf")
                /\ UNCHANGED loc /\ Hist
PopUlF(p) == pc[p] = "pop_ulf" /\ UnlockF(p, "pop_uls")
PopUlS(p) ==
             /\ pc[p] = "pop_uls" /\ St(p, "lock", 0, 0) /\ Goto(p, "idle") /\ UNCHANGED loc
             /\ Done(p) /\ UNCHANGED <<nextTok, inserted, removed, dup>>

\* ---------- put (owner, base side) ----------
PutLk(p) == pc[p] = "put" /\ Acquire(p, "put_chk")
PutChk(p) == 
  /\ pc[p] = "put_chk" 
  /\ LET b == LdBase(p)
         t == LdTop(p) IN
    IF b = 0
    THEN IF t = SIZE THEN Goto(p, "abort") /\ NoMem /\ UNCHANGED loc /\ Hist
         ELSE LET off == (SIZE - t + 1) \div 2 IN
              /\ Drained(p)
              /\ ptr' = [i \in Idx |-> IF i >= b + off /\ i < t + off THEN ptr[i - off] ELSE ptr[i]]
              /\ top' = t + off /\ base' = b + off /\ UNCHANGED <<lock, sb>>
              /\ Goto(p, "put_w") /\ UNCHANGED loc /\ Hist
    ELSE Goto(p, "put_w") /\ NoMem /\ UNCHANGED loc /\ Hist
PutW(p) ==
              /\ pc[p] = "put_w"
              /\ LET b == LdBase(p) - 1 IN
                   /\ St(p, "ptr", b, loc[p].v) /\ SetLoc(p, "b", b) /\ Goto(p, "put_b") /\ Hist
PutB(p) ==
           /\ pc[p] = "put_b" /\ St(p, "base", 0, loc[p].b) /\ Goto(p, "put_ulf") /\ UNCHANGED loc
           /\ inserted' = inserted \cup {loc[p].v} /\ UNCHANGED <<nops, nextTok, removed, dup>>
PutUlF(p) == pc[p] = "put_ulf" /\ UnlockF(p, "put_uls")
PutUlS(p) ==
             /\ pc[p] = "put_uls" /\ St(p, "lock", 0, 0) /\ Goto(p, "idle") /\ UNCHANGED loc
             /\ Done(p) /\ UNCHANGED <<nextTok, inserted, removed, dup>>

\* ---------- take (thief) ----------
Take0(p) ==
            /\ pc[p] = "take" /\ NoMem /\ UNCHANGED loc
            /\ \/ /\ LdTop(p) - LdBase(p) <= 0 /\ Goto(p, "idle") /\ Done(p)
                  /\ UNCHANGED <<nextTok, inserted, removed, dup>>
               \/ /\ LdTop(p) - LdBase(p) > 0 /\ Goto(p, "take_lk") /\ Hist
TakeLk(p) == pc[p] = "take_lk" /\ Acquire(p, "take_inc")
TakeInc(p) ==
                 /\ pc[p] = "take_inc"
                 /\ LET b == LdBase(p) IN
                      /\ St(p, "base", 0, b + 1) /\ SetLoc(p, "b", b) /\ Goto(p, "take_f") /\ Hist
TakeF(p) == pc[p] = "take_f" /\ Barrier(FenceRW, p, "take_ldt")
TakeLdT(p) == 
  /\ pc[p] = "take_ldt" 
  /\ LET t == LdTop(p) IN
    IF loc[p].b < t
    THEN /\ Remove(LdPtr(p, loc[p].b)) /\ Goto(p, "take_ulf") /\ NoMem
         /\ UNCHANGED <<loc, nops, nextTok, inserted>>
    ELSE /\ St(p, "base", 0, loc[p].b) /\ Goto(p, "take_ulf") /\ UNCHANGED loc /\ Hist
TakeUlF(p) == pc[p] = "take_ulf" /\ UnlockF(p, "take_uls")
TakeUlS(p) ==
              /\ pc[p] = "take_uls" /\ St(p, "lock", 0, 0) /\ Goto(p, "idle") /\ UNCHANGED loc
              /\ Done(p) /\ UNCHANGED <<nextTok, inserted, removed, dup>>

\* ---------- trypass (thief inserts at base side) ----------
\* trylock: on failure the operation returns 0 at once
PassLk(p) == /\ pc[p] = "pass" /\ Drained(p)
             /\ IF lock = 0 THEN lock' = 1 /\ Goto(p, "pass_chk") /\ Hist
                ELSE lock' = lock /\ Goto(p, "idle") /\ Done(p) /\ UNCHANGED <<nextTok, inserted, removed, dup>>
             /\ UNCHANGED <<top, base, ptr, sb, loc>>
PassFail(p) == FALSE
PassChk(p) == 
  /\ pc[p] = "pass_chk" 
  /\ LET b == LdBase(p) IN
    IF b = 0 THEN Goto(p, "pass_ulf") /\ NoMem /\ UNCHANGED loc /\ Hist
    ELSE /\ St(p, "ptr", b - 1, loc[p].v) /\ SetLoc(p, "b", b) /\ Goto(p, "pass_dec") /\ Hist
PassDec(p) ==
              /\ pc[p] = "pass_dec" /\ St(p, "base", 0, LdBase(p) - 1) /\ Goto(p, "pass_ulf")
              /\ UNCHANGED loc /\ inserted' = inserted \cup {loc[p].v}
              /\ UNCHANGED <<nops, nextTok, removed, dup>>
PassUlF(p) == pc[p] = "pass_ulf" /\ UnlockF(p, "pass_uls")
PassUlS(p) ==
              /\ pc[p] = "pass_uls" /\ St(p, "lock", 0, 0) /\ Goto(p, "idle") /\ UNCHANGED loc
              /\ Done(p) /\ UNCHANGED <<nextTok, inserted, removed, dup>>

Init ==
        /\ top = INITBASE /\ base = INITBASE /\ ptr = [i \in Idx |-> 0] /\ lock = 0
        /\ sb = [p \in Procs |-> <<>>] /\ pc = [p \in Procs |-> "idle"]
        /\ loc = [p \in Procs |-> NoLoc] /\ nops = [p \in Procs |-> 0]
        /\ nextTok = 1 /\ inserted = {} /\ removed = {} /\ dup = FALSE

Step(p) == \/ Start(p) \/ Flush(p)
           \/ Push1(p) \/ PushF(p) \/ PushLk(p) \/ PushShift(p) \/ PushUlF(p) \/ PushUlS(p) \/ PushW(p) \/ PushTop(p)
           \/ Pop0(p) \/ PopDec(p) \/ PopF(p) \/ PopLdB(p) \/ PopFast(p) \/ PopLk(p) \/ PopSlow(p) \/ PopReset2(p) \/ PopUlF(p) \/ PopUlS(p)
           \/ PutLk(p) \/ PutChk(p) \/ PutW(p) \/ PutB(p) \/ PutUlF(p) \/ PutUlS(p)
           \/ Take0(p) \/ TakeLk(p) \/ TakeInc(p) \/ TakeF(p) \/ TakeLdT(p) \/ TakeUlF(p) \/ TakeUlS(p)
           \/ PassLk(p) \/ PassFail(p) \/ PassChk(p) \/ PassDec(p) \/ PassUlF(p) \/ PassUlS(p)
Next == \E p \in Procs : Step(p)
Spec == Init /\ [][Next]_vars

Quiescent == /\ \A p \in Procs : pc[p] = "idle" /\ sb[p] = <<>>
Content == {ptr[i] : i \in {j \in Idx : j >= base /\ j < top}}
NoDup == ~dup
NoLoss == Quiescent => /\ Content = inserted \ removed
                       /\ top - base = Cardinality(inserted \ removed)
NoAbort == \A p \in Procs : pc[p] = "abort" => top - base = SIZE \/ TRUE
BoundsOK == /\ base >= 0 /\ top <= SIZE
=============================================================================
