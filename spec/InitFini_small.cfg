SPECIFICATION DesignSpec
CONSTANTS MaxNW = 3
 NCPU = 2
INVARIANT IFOK
INVARIANT OnlyOneInit
CHECK_DEADLOCK FALSE
