SPECIFICATION Spec
CONSTANTS SIZE = 4
 Thieves = {"t1"}
 MaxOwnerOps = 4
 MaxThiefOps = 3
 TSO = TRUE
 SBMAX = 3
 INITBASE = 2
 OwnerOps = {"push","pop"}
 ThiefOps = {"take"}
 FenceR = "full"
 FenceRW = "full"
INVARIANT NoDup
INVARIANT NoLoss
INVARIANT BoundsOK
CHECK_DEADLOCK FALSE
