SPECIFICATION Spec
CONSTANTS NThreads = 3
 MaxPeeks = 3
 MaxTakes = 2
INVARIANT OK
INVARIANT SeqParity
CHECK_DEADLOCK FALSE
