SPECIFICATION Spec
INVARIANT AllWellFormed
POSTCONDITION Done
CHECK_DEADLOCK FALSE
