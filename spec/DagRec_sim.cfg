SPECIFICATION DSpec
CONSTANTS MaxTasks = 4
 NWk = 3
 MaxOps = 3
INVARIANT TinfLeWork
INVARIANT Counts
INVARIANT Emit
CHECK_DEADLOCK FALSE
