------------------------------ MODULE CtxSwitch ------------------------------
(***************************************************************************)
(* C03: a thread's registers and stack survive every context switch.       *)
(*                                                                         *)
(* An abstract x86-64 machine (general registers, one stack per context,   *)
(* stack pointer in 8-byte words relative to a 16-byte aligned origin)     *)
(* executes the instruction lists of module CtxAsm, which are EXTRACTED    *)
(* from the asm statements of myth_context_func.h as compiled.  Around     *)
(* them the model plays the compiler and the other threads:                *)
(*  - at a switch the compiler may hold a live value in every register     *)
(*    that the statement declares neither as output nor as clobbered, in   *)
(*    the 128-byte red zone below rsp and in the frame above rsp;          *)
(*  - a callback (and any C code that runs afterwards) destroys every      *)
(*    caller-saved register and everything below the stack pointer of the  *)
(*    stack it runs on; every other thread that runs in between loads all  *)
(*    registers with its own values;                                       *)
(*  - a suspended context may be resumed by any worker once it has been    *)
(*    published (by the callback, or at once when there is no callback).   *)
(* When the statement ends, every live value must be back.                 *)
(***************************************************************************)
EXTENDS Integers, Sequences, FiniteSets, TLC, CtxAsm

CONSTANTS Threads,        \* thread contexts (strings)
          PFThreads,      \* those first entered by a jump to their entry function (parent-first creation)
          Workers,        \* worker ids
          MaxSwitches,
          InitCFpar,      \* parity (0 = 16-byte aligned, 1 = 8 mod 16) of the initial stack pointer made by myth_make_context_empty
          InitPFpar       \* ... by myth_make_context_voidcall (the entry address is stored there)

Sched(w) == "sched" \o ToString(w)
Ctx == Threads \cup {Sched(w) : w \in Workers}
GPR == {"rax", "rbx", "rcx", "rdx", "rsi", "rdi", "rbp", "r8", "r9", "r10", "r11", "r12", "r13", "r14", "r15"}
AbiCalleeSaved == {"rbx", "rbp", "r12", "r13", "r14", "r15"}     \* what a called C function preserves
Lists == {SwapL, SwapCallL, SetL, SetCallL}
HasCall(L) == \E j \in 1..Len(L.code) : L.code[j].op = "callcb"
\* registers in which the compiler may keep a value across the statement
LiveRegs(L) == GPR \ (L.outputs \cup L.clobbers)
MinOff == -44
Offs == MinOff..2
JUNK == <<"junk">>

VARIABLES run,      \* run[w]: context executing C code on w, or "none" while inside an asm statement
          ip,       \* ip[w]: [L, i, from, to] position in a list, or NoIp
          regs, sp, \* per worker: registers, stack pointer [stk, off]
          mem,      \* mem[c][off]: the stack of context c
          ctxsp,    \* saved stack pointer per context (NoSp while the context runs)
          state,    \* per context: "running", "switching", "suspended", "freshCF", "freshPF", "dead"
          pub,      \* the context has been made resumable
          tailc,    \* instructions to execute when the context is resumed (after its label)
          ghost,    \* what the compiler expects back: [regs, sp, L]
          nsw, bad
vars == <<run, ip, regs, sp, mem, ctxsp, state, pub, tailc, ghost, nsw, bad>>
NoIp == [L |-> <<>>, i |-> 0, from |-> "none", to |-> "none"]
NoSp == [stk |-> "none", off |-> 0]
Fail(m) == IF bad = "ok" THEN m ELSE bad
LabelIdx(code) == CHOOSE i \in 1..Len(code) : code[i].op = "label"

Init == /\ run = [w \in Workers |-> Sched(w)]
        /\ ip = [w \in Workers |-> NoIp]
        /\ regs = [w \in Workers |-> [r \in GPR |-> JUNK]]
        /\ sp = [w \in Workers |-> [stk |-> Sched(w), off |-> 0]]
        /\ mem = [c \in Ctx |-> [o \in Offs |-> IF c \in PFThreads /\ o = -InitPFpar THEN <<"entry", c>> ELSE JUNK]]
        /\ ctxsp = [c \in Ctx |-> IF c \in PFThreads THEN [stk |-> c, off |-> -InitPFpar]
                                  ELSE IF c \in Threads THEN [stk |-> c, off |-> -InitCFpar] ELSE NoSp]
        /\ state = [c \in Ctx |-> IF c \in PFThreads THEN "freshPF" ELSE IF c \in Threads THEN "freshCF" ELSE "running"]
        /\ pub = [c \in Ctx |-> c \in Threads]       \* a fresh thread may be started by anybody
        /\ tailc = [c \in Ctx |-> <<>>]
        /\ ghost = [c \in Ctx |-> [regs |-> [r \in GPR |-> JUNK], sp |-> NoSp, live |-> {}, n |-> 0]]
        /\ nsw = 0 /\ bad = "ok"

\* C code of context c on worker w reaches the asm statement L, switching to context t.
\* d: how deep in its stack the C code is (an even number of words: the compiler keeps rsp 16-byte aligned)
BeginSwitch(w, t, L, d) ==
  /\ run[w] # "none" /\ ip[w] = NoIp /\ nsw < MaxSwitches
  /\ LET c == run[w]
         s == [stk |-> sp[w].stk, off |-> sp[w].off - d]
         live == LiveRegs(L) IN
     /\ t # c /\ pub[t] /\ state[t] \in {"freshCF", "freshPF", "suspended"}
     /\ (state[t] = "freshCF" => HasCall(L))              \* an empty context is only ever entered through a callback
     /\ (L.kills => c \in Threads)                        \* only a finished thread jumps away for good
     /\ s.off - 30 >= MinOff
     /\ pub' = [pub EXCEPT ![t] = FALSE]
     /\ sp' = [sp EXCEPT ![w] = s]
     /\ regs' = [regs EXCEPT ![w] = [r \in GPR |-> IF r \in live THEN <<"live", c, r, nsw>>
                                               ELSE IF r = L.from /\ r # "" THEN <<"ctx", c>>
                                               ELSE IF r = L.to THEN <<"ctx", t>> ELSE JUNK]]
     \* the red zone (16 words below rsp) and the frame (2 words at and above rsp) hold live data
     /\ mem' = [mem EXCEPT ![s.stk] = [o \in Offs |-> IF o >= s.off - 16 /\ o < s.off THEN <<"zone", c, o, nsw>>
                                                      ELSE IF o >= s.off /\ o <= s.off + 1 THEN <<"frame", c, o, nsw>> ELSE @[o]]]
     /\ ghost' = [ghost EXCEPT ![c] = [regs |-> [r \in GPR |-> IF r \in live THEN <<"live", c, r, nsw>> ELSE JUNK], sp |-> s, live |-> live, n |-> nsw]]
     /\ ctxsp' = [ctxsp EXCEPT ![c] = NoSp]              \* whatever was saved there before is stale now
     /\ ip' = [ip EXCEPT ![w] = [L |-> L, i |-> 1, from |-> c, to |-> t]]
     /\ state' = [state EXCEPT ![c] = IF L.kills THEN "dead" ELSE "switching"]
     /\ run' = [run EXCEPT ![w] = "none"]
     /\ nsw' = nsw + 1
     /\ bad' = IF "memory" \notin L.clobbers THEN Fail("asm statement does not declare that memory changes")
               ELSE IF \E j \in 1..Len(L.code) : L.code[j].op = "unknown" THEN Fail("UNMODELLED instruction")
               ELSE bad
     /\ UNCHANGED tailc

\* the ABI's view of a C function called at stack pointer s on worker w
Scribble(stk, off) == [mem EXCEPT ![stk] = [o \in Offs |-> IF o < off THEN JUNK ELSE @[o]]]

Exec(w) ==
  /\ ip[w] # NoIp
  /\ LET P == ip[w]
         I == P.L.code[P.i]
         s == sp[w]
         adv == [ip EXCEPT ![w].i = P.i + 1]
     IN
     CASE I.op = "subsp" -> /\ sp' = [sp EXCEPT ![w].off = s.off - I.n] /\ ip' = adv
                            /\ bad' = IF s.off - I.n < MinOff THEN Fail("model stack exhausted") ELSE bad
                            /\ UNCHANGED <<run, regs, mem, ctxsp, state, pub, tailc, ghost, nsw>>
       [] I.op = "addsp" -> /\ sp' = [sp EXCEPT ![w].off = s.off + I.n] /\ ip' = adv
                            /\ UNCHANGED <<run, regs, mem, ctxsp, state, pub, tailc, ghost, nsw, bad>>
       [] I.op = "push" -> /\ sp' = [sp EXCEPT ![w].off = s.off - 1]
                           /\ mem' = [mem EXCEPT ![s.stk][s.off - 1] = regs[w][I.r]] /\ ip' = adv
                           /\ UNCHANGED <<run, regs, ctxsp, state, pub, tailc, ghost, nsw, bad>>
       [] I.op = "pop" -> /\ regs' = [regs EXCEPT ![w][I.r] = mem[s.stk][s.off]]
                          /\ sp' = [sp EXCEPT ![w].off = s.off + 1] /\ ip' = adv
                          /\ UNCHANGED <<run, mem, ctxsp, state, pub, tailc, ghost, nsw, bad>>
       [] I.op \in {"stfp", "ldfp"} ->      \* floating-point control words saved to / reloaded from the stack
                          /\ mem' = IF I.op = "stfp" THEN [mem EXCEPT ![s.stk][s.off + I.n] = <<"fpcsr", P.from>>] ELSE mem
                          /\ ip' = adv /\ UNCHANGED <<run, regs, sp, ctxsp, state, pub, tailc, ghost, nsw, bad>>
       [] I.op = "lealabel" -> /\ regs' = [regs EXCEPT ![w][I.r] = <<"resume", P.from>>] /\ ip' = adv
                               /\ UNCHANGED <<run, sp, mem, ctxsp, state, pub, tailc, ghost, nsw, bad>>
       [] I.op = "savesp" ->
            /\ bad' = IF regs[w][I.r] # <<"ctx", P.from>> THEN Fail("stack pointer saved through a register that does not hold the suspended context") ELSE bad
            /\ ctxsp' = [ctxsp EXCEPT ![P.from] = s]
            /\ tailc' = [tailc EXCEPT ![P.from] = SubSeq(P.L.code, LabelIdx(P.L.code) + 1, Len(P.L.code))]
            /\ ip' = adv
            \* without a callback the context is resumable as soon as its stack pointer is stored
            /\ IF ~HasCall(P.L) THEN pub' = [pub EXCEPT ![P.from] = TRUE] /\ state' = [state EXCEPT ![P.from] = "suspended"]
               ELSE pub' = pub /\ state' = state
            /\ UNCHANGED <<run, regs, sp, mem, ghost, nsw>>
       [] I.op = "loadsp" ->
            /\ bad' = IF regs[w][I.r] # <<"ctx", P.to>> THEN Fail("stack pointer loaded through a register that does not hold the target context")
                      ELSE IF ctxsp[P.to] = NoSp THEN Fail("switch to a context whose stack pointer has not been saved") ELSE bad
            /\ sp' = [sp EXCEPT ![w] = IF ctxsp[P.to] = NoSp THEN s ELSE ctxsp[P.to]] /\ ip' = adv
            /\ UNCHANGED <<run, regs, mem, ctxsp, state, pub, tailc, ghost, nsw>>
       [] I.op = "callcb" ->
            \* ABI: rsp is 16-byte aligned at a call; the callee destroys caller-saved registers and everything below
            /\ bad' = IF s.off % 2 # 0 THEN Fail("function called with a misaligned stack") ELSE bad
            /\ mem' = Scribble(s.stk, s.off)
            /\ regs' = [regs EXCEPT ![w] = [r \in GPR |-> IF r \in AbiCalleeSaved THEN @[r] ELSE JUNK]]
            \* the callback publishes the suspended context (pushes it to a run queue, releases a lock, ...)
            /\ pub' = [pub EXCEPT ![P.from] = (state[P.from] = "switching")]
            /\ IF state[P.to] = "freshCF"
               THEN \* the callback is the new thread's first frame: it does not return here
                    /\ state' = [state EXCEPT ![P.from] = IF @ = "switching" THEN "suspended" ELSE @, ![P.to] = "running"]
                    /\ run' = [run EXCEPT ![w] = P.to] /\ ip' = [ip EXCEPT ![w] = NoIp]
                    /\ sp' = [sp EXCEPT ![w].off = s.off - 2]
               ELSE /\ state' = [state EXCEPT ![P.from] = IF @ = "switching" THEN "suspended" ELSE @]
                    /\ ip' = adv /\ run' = run /\ sp' = sp
            /\ UNCHANGED <<ctxsp, tailc, ghost, nsw>>
       [] I.op \in {"jmpreg", "ret"} ->
            LET target == IF I.op = "ret" THEN mem[s.stk][s.off] ELSE regs[w][I.r]
                s1 == IF I.op = "ret" THEN [s EXCEPT !.off = s.off + 1] ELSE s IN
            /\ IF target = <<"entry", P.to>> /\ state[P.to] = "freshPF"
               THEN \* function entry: as after a call, rsp must be 8 mod 16
                    /\ bad' = IF s1.off % 2 = 0 THEN Fail("thread entered with a misaligned stack") ELSE bad
                    /\ run' = [run EXCEPT ![w] = P.to] /\ ip' = [ip EXCEPT ![w] = NoIp]
                    /\ state' = [state EXCEPT ![P.to] = "running"]
                    /\ sp' = [sp EXCEPT ![w].off = s1.off - 1]          \* the prologue's push %rbp: aligned again
               ELSE IF target = <<"resume", P.to>> /\ state[P.to] = "suspended"
               THEN /\ bad' = bad
                    /\ ip' = [ip EXCEPT ![w] = [L |-> [code |-> tailc[P.to]], i |-> 1, from |-> P.to, to |-> "none"]]
                    /\ sp' = [sp EXCEPT ![w] = s1]
                    /\ run' = run /\ state' = state
               ELSE /\ bad' = Fail("jump to something that is not the target's resume point")
                    /\ ip' = [ip EXCEPT ![w] = NoIp] /\ run' = [run EXCEPT ![w] = Sched(w)] /\ sp' = sp /\ state' = state
            /\ UNCHANGED <<regs, mem, ctxsp, pub, tailc, ghost, nsw>>
       [] I.op = "label" -> ip' = adv /\ UNCHANGED <<run, regs, sp, mem, ctxsp, state, pub, tailc, ghost, nsw, bad>>
       [] OTHER -> ip' = adv /\ UNCHANGED <<run, regs, sp, mem, ctxsp, state, pub, tailc, ghost, nsw, bad>>

\* the statement is over: C code of the resumed context continues and relies on what it left
EndAsm(w) ==
  /\ ip[w] # NoIp /\ ip[w].i > Len(ip[w].L.code)
  /\ LET c == ip[w].from  s == sp[w]  g == ghost[c] IN
     /\ bad' = IF \E r \in g.live : regs[w][r] # g.regs[r] THEN Fail("C03: a register the compiler may keep live across the switch was not restored")
               ELSE IF s # g.sp THEN Fail("C03: stack pointer not restored")
               ELSE IF \E o \in Offs : o >= s.off - 16 /\ o < s.off /\ mem[s.stk][o] # <<"zone", c, o, g.n>> THEN Fail("C03: red zone below the stack pointer overwritten")
               ELSE IF \E o \in Offs : o >= s.off /\ o <= s.off + 1 /\ mem[s.stk][o] # <<"frame", c, o, g.n>> THEN Fail("C03: stack frame of the suspended thread overwritten")
               ELSE bad
     /\ run' = [run EXCEPT ![w] = c] /\ ip' = [ip EXCEPT ![w] = NoIp]
     /\ state' = [state EXCEPT ![c] = "running"]
     /\ UNCHANGED <<regs, sp, mem, ctxsp, pub, tailc, ghost, nsw>>

Step(w) == IF ip[w] # NoIp /\ ip[w].i > Len(ip[w].L.code) THEN EndAsm(w) ELSE Exec(w)

\* the scheduler context of w is switched to only from w itself
Next == \/ \E w \in Workers : ip[w] # NoIp /\ Step(w)
        \/ \E w \in Workers, t \in Ctx, L \in Lists, d \in {0, 2} :
             /\ (t \notin Threads => t = Sched(w))
             /\ BeginSwitch(w, t, L, d)
Spec == Init /\ [][Next]_vars

OK == bad = "ok"
\* (vacuity) states the configuration must be able to reach
SomeMigration == \E c \in Threads, w \in Workers : state[c] = "running" /\ run[w] = c /\ ghost[c].sp # NoSp /\ w # 0
=============================================================================
