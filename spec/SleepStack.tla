----------------------------- MODULE SleepStack -----------------------------
(***************************************************************************)
(* The lock-free sleep stack (myth_sleep_stack_push / myth_sleep_stack_pop  *)
(* of myth_sleep_queue_func.h) at the granularity of its shared accesses.   *)
(* The barrier parks its waiters here: each waiter pushes itself once       *)
(* (concurrently with the others), and the last arriver pops until it has   *)
(* collected them all -- pushes and pops overlap.                           *)
(*   push(x):  stpush_ld : t := top ; x.next := t                           *)
(*             stpush_cas: if top = t then top := x (done) else retry       *)
(*   pop():    stpop_ld  : x := top ; if x = 0 return 0                     *)
(*             stpop_cas : if top = x then top := x.next (return x) else retry *)
(* One popper (the barrier admits one last arriver per round).  Level C     *)
(* (Myth.tla: StPush / StPop) treats both operations as atomic; this module *)
(* is what justifies that, and its behaviours are replayed step by step in  *)
(* the real code.                                                           *)
(***************************************************************************)
EXTENDS Integers, Sequences, FiniteSets, TLC, Json

CONSTANTS Pushers,      \* set of pusher process names; pusher p pushes the items ItemsOf[p] one after the other
          NItems,       \* items 1..NItems
          MaxPops,      \* operations of the popper
          MUTANT        \* "none"; "fastpop" = calibration mutant: a popper that sees a single element stores top := 0 without a CAS
ASSUME NItems \in Nat
Items == 1..NItems
Procs == Pushers \cup {"pop"}
\* items are dealt to the pushers round robin
PusherSeq == CHOOSE s \in [1..Cardinality(Pushers) -> Pushers] : \A i, j \in DOMAIN s : i # j => s[i] # s[j]
OwnerOf(i) == PusherSeq[((i - 1) % Cardinality(Pushers)) + 1]

VARIABLES top, next,        \* shared: top of stack (0 = empty), next[i]
          pc, loc,          \* per process: label, locals [x, t]
          pushed, popped,   \* ghost: items whose push / pop has completed
          npops, dup
vars == <<top, next, pc, loc, pushed, popped, npops, dup>>

Init == /\ top = 0 /\ next = [i \in Items |-> 0]
        /\ pc = [p \in Procs |-> "idle"] /\ loc = [p \in Procs |-> [x |-> 0, t |-> 0]]
        /\ pushed = {} /\ popped = {} /\ npops = 0 /\ dup = FALSE

\* the next item pusher p has not started to push yet
NextItem(p) == LET S == {i \in Items : OwnerOf(i) = p /\ i \notin pushed} IN IF S = {} THEN 0 ELSE CHOOSE i \in S : \A j \in S : i <= j
StartPush(p) == /\ p \in Pushers /\ pc[p] = "idle" /\ NextItem(p) # 0
                /\ pc' = [pc EXCEPT ![p] = "stpush_ld"] /\ loc' = [loc EXCEPT ![p] = [x |-> NextItem(p), t |-> 0]]
                /\ UNCHANGED <<top, next, pushed, popped, npops, dup>>
PushLd(p) == /\ pc[p] = "stpush_ld"
             /\ loc' = [loc EXCEPT ![p].t = top] /\ next' = [next EXCEPT ![loc[p].x] = top]
             /\ pc' = [pc EXCEPT ![p] = "stpush_cas"] /\ UNCHANGED <<top, pushed, popped, npops, dup>>
PushCas(p) == /\ pc[p] = "stpush_cas"
              /\ IF top = loc[p].t
                 THEN /\ top' = loc[p].x /\ pushed' = pushed \cup {loc[p].x} /\ pc' = [pc EXCEPT ![p] = "idle"]
                 ELSE /\ pc' = [pc EXCEPT ![p] = "stpush_ld"] /\ UNCHANGED <<top, pushed>>
              /\ UNCHANGED <<next, loc, popped, npops, dup>>
StartPop == /\ pc["pop"] = "idle" /\ npops < MaxPops
            /\ pc' = [pc EXCEPT !["pop"] = "stpop_ld"] /\ npops' = npops + 1
            /\ UNCHANGED <<top, next, loc, pushed, popped, dup>>
PopLd == /\ pc["pop"] = "stpop_ld"
         /\ loc' = [loc EXCEPT !["pop"].x = top]
         /\ pc' = [pc EXCEPT !["pop"] = IF top = 0 THEN "idle" ELSE IF MUTANT = "fastpop" /\ next[top] = 0 THEN "mut_store" ELSE "stpop_cas"]
         /\ UNCHANGED <<top, next, pushed, popped, npops, dup>>
MutStore == /\ pc["pop"] = "mut_store"
            /\ top' = 0 /\ popped' = popped \cup {loc["pop"].x} /\ pc' = [pc EXCEPT !["pop"] = "idle"]
            /\ UNCHANGED <<next, loc, pushed, npops, dup>>
PopCas == /\ pc["pop"] = "stpop_cas"
          /\ LET x == loc["pop"].x IN
             IF top = x
             THEN /\ top' = next[x] /\ popped' = popped \cup {x} /\ dup' = (dup \/ x \in popped)
                  /\ pc' = [pc EXCEPT !["pop"] = "idle"]
             ELSE /\ pc' = [pc EXCEPT !["pop"] = "stpop_ld"] /\ UNCHANGED <<top, popped, dup>>
          /\ UNCHANGED <<next, loc, pushed, npops>>
Next == \/ \E p \in Pushers : StartPush(p) \/ PushLd(p) \/ PushCas(p)
        \/ StartPop \/ PopLd \/ PopCas \/ MutStore
Spec == Init /\ [][Next]_vars

\* ---- properties
RECURSIVE Chain(_, _)
Chain(i, n) == IF i = 0 \/ n = 0 THEN <<>> ELSE <<i>> \o Chain(next[i], n - 1)
Content == {Chain(top, NItems + 1)[k] : k \in 1..Len(Chain(top, NItems + 1))}
NoDup == ~dup
\* nothing is lost: whenever no operation is in flight the stack holds exactly what was pushed and not yet popped
Quiescent == \A p \in Procs : pc[p] = "idle"
NoLoss == Quiescent => Content = pushed \ popped
\* also while pushes are in flight: an item whose push has completed and that was not popped is on the stack
NoLossAlways == (pushed \ popped) \subseteq Content
Acyclic == Len(Chain(top, NItems + 1)) <= NItems
=============================================================================
