SPECIFICATION MSpec
CONSTANTS NW = 2
 MaxD = 3
 MaxS = 2
 MaxTag = 2
 MaxObj = 2
 MaxL = 3
 MaxQ = 5
 NKeys = 2
 SCN = "timed"
 NT = 2
 K = 1
 ND = 1
 BCAST = 0
INVARIANT OK
INVARIANT ExactlyOnePlace
INVARIANT RunnableSaved
INVARIANT RunOnce
INVARIANT ReapOnce
INVARIANT SleepNoEarly
INVARIANT MutualExclusion
CHECK_DEADLOCK TRUE
