SPECIFICATION Spec
CONSTANTS SIZE = 4
 Thieves = {"t1","t2"}
 MaxOwnerOps = 4
 MaxThiefOps = 2
 TSO = FALSE
 SBMAX = 0
 INITBASE = 2
 OwnerOps = {"push","pop","put"}
 ThiefOps = {"take","pass"}
 FenceR = "full"
 FenceRW = "full"
INVARIANT NoDup
INVARIANT NoLoss
INVARIANT BoundsOK
CHECK_DEADLOCK FALSE
