SPECIFICATION MSpec
CONSTANTS NW = 2
 MaxD = 5
 MaxS = 4
 MaxTag = 4
 MaxObj = 2
 MaxL = 5
 MaxQ = 5
 NKeys = 2
 SCN = "jc"
 NT = 4
 K = 1
 ND = 2
 BCAST = 0
INVARIANT OK
INVARIANT ExactlyOnePlace
INVARIANT RunnableSaved
INVARIANT RunOnce
INVARIANT ReapOnce
CHECK_DEADLOCK TRUE
