SPECIFICATION Spec
CONSTANTS Peekers = {"p1", "p2"}
 NThreads = 3
 MaxPeeks = 3
 MaxTakes = 2
INVARIANT OK
INVARIANT SeqParity
CHECK_DEADLOCK FALSE
