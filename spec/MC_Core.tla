------------------------------ MODULE MC_Core ------------------------------
(* Exhaustive design exploration of the scheduler core: every parameter of every
   Myth action is quantified existentially; the "program" is whatever sequence of API
   calls the threads choose to make, within the bounds below. *)
EXTENDS Myth

CONSTANTS Flags,      \* set of creation-flag combinations the program may use
          YieldOpts,  \* set of yield options the program may use
          Ops         \* subset of {"create","join","tryjoin","detach","yield","exit"}

Vals == {0, 1}
MCInit == /\ CoreInit
          /\ \E w0 \in W : TRUE
MInit ==
  /\ got = got0 /\ cb = cb0 /\ runq = runq0 /\ lk = lk0 /\ stk = stk0
  /\ freeD = freeD0 /\ freeS = freeS0 /\ flS = flS0
  /\ nD = 1 /\ nS = 0 /\ nL = 0 /\ anw = NW /\ bad = "ok"
  /\ cur = [w \in W |-> IF w = 0 THEN 1 ELSE 0]
  /\ th = [d \in D |-> IF d = 1 THEN [NoTh EXCEPT !.st = "ready", !.pc = User, !.tag = 0] ELSE NoTh]
  /\ tg = [t \in Tag |-> IF t = 0 THEN [NoTg EXCEPT !.d = 1, !.hs = "main", !.ran = 1] ELSE NoTg]
  /\ mx = mx0 /\ sq = sq0 /\ ob = ob0 /\ gh = gh0

\* the program: a running thread at user level may make any API call that is legal for it
NextTag == CHOOSE t \in Tag : tg[t].hs = "none" /\ \A u \in Tag : tg[u].hs = "none" => t <= u
CanCreate == \E t \in Tag : tg[t].hs = "none"
Children(tag) == {c \in Tag : tg[c].par = tag}
\* a thread ends only when all its children have been reaped or detached
MayEnd(tag) == \A c \in Children(tag) : tg[c].hs \in {"reaped", "detached"}
MainDone == \A t \in Tag : t # 0 => tg[t].hs \in {"none", "reaped", "detached"}

UserStep(w) ==
  \E t \in D : At(w, t, "user") /\
    LET tag == th[t].tag IN
    \/ /\ "create" \in Ops /\ CanCreate /\ (nD < MaxD \/ freeD[w] # <<>>)
       /\ \E f \in Flags : /\ (nS < MaxS \/ (IF f = 0 THEN freeS[w] # <<>> ELSE flS[w][17] # <<>>))
                            /\ UCreateCall(w, tag, NextTag, f)
    \/ "join" \in Ops /\ \E c \in Children(tag) : UJoinCall(w, tag, c)
    \/ "tryjoin" \in Ops /\ \E c \in Children(tag) : UTryJoinCall(w, tag, c)
    \/ "detach" \in Ops /\ \E c \in Children(tag) : UDetachCall(w, tag, c)
    \/ "yield" \in Ops /\ \E o \in YieldOpts : UYieldCall(w, tag, o)
    \/ tag # 0 /\ MayEnd(tag) /\ UBodyEnd(w, tag, 1000 + tag, 0)
    \/ tag = 0 /\ MainDone /\ ~CanCreate /\ UMainEnd(w)

LibStep(w) ==
  \/ \E n \in D : QPop(w, w, n) \/ SchedRun(w, n)
  \/ \E v \in W, n \in D : QTake(w, v, n)
  \* work-stealing API ("wsapi" in Ops): take with a decision callback that may decline, and peek
  \/ "wsapi" \in Ops /\ \E v \in W, cand \in D, n \in D \cup {0} : QTakeEx(w, v, cand, n)
  \/ "wsapi" \in Ops /\ \E v \in W, n \in D \cup {0} : QPeek(w, v, n, 0)
  \/ \E d \in D : QPush(w, w, d) \/ QPut(w, w, d) \/ DescFree(w, w, d)
  \/ \E l \in L : SpinAcq(w, l) \/ SpinRel(w, l)
  \/ \E c \in D, l \in L, f \in {0, 1} : DescAlloc(w, w, c, l, f)
  \/ \E s \in S, k \in {0, 1, 2} : StackAlloc(w, w, s, 2 * s, 2 * s + 1, k, IF k = 2 THEN 17 ELSE 0)
  \/ \E c \in D, kind \in {0, 1} : MkCtx(w, c, kind, 1)
  \/ \E p, c \in D, s \in S, det \in {0, 1} : CreateCF(w, p, c, s, det, 0) \/ CreatePF(w, p, c, s, det, 0)
  \/ \E pt, ct \in Tag : UCreateRet(w, pt, ct) \/ UJoinRet(w, pt, ct, tg[ct].endv, tg[ct].cell) \/ UDetachRet(w, pt, ct)
                          \/ (\E rc \in {0, 16} : UTryJoinRet(w, pt, ct, rc, tg[ct].endv, tg[ct].cell))
  \/ \E k \in 1..6 : CbEnter(w, k, 0)
  \/ CbExit(w) \/ ThreadEntry(w, 0)
  \/ \E t \in Tag : UBodyStart(w, t, 7700 + t) \/ UYieldRet(w, t)
  \/ \E t \in D, o \in 0..4 : YieldBeg(w, t, o)
  \/ \E t \in D : YieldEnd(w, t)
  \/ \E t, j \in D : FinWaiter(w, t, j) \/ JoinSet(w, t, j)
  \/ \E s \in S, k \in {0, 2} : StackFree(w, w, s, k, IF k = 2 THEN 17 ELSE 0)
  \/ \E t \in D, b \in {0, 1} : FinDet(w, t, b) \/ DetachQuick(w, t, b) \/ DetachChk(w, t, b)
  \/ \E t \in D : Publish(w, t) \/ SetBlocked(w, t) \/ SetDetached(w, t)
  \/ \E j, t \in D, b \in {0, 1} : JoinChk(w, j, t, b) \/ TryJoinChk(w, j, t, b)
  \/ \E t \in D : JoinReap(w, t, th[t].res)

Finished == \E w \in W : cur[w] # 0 /\ th[cur[w]].tag = 0 /\ th[cur[w]].pc.k = "done"
AllReaped == \A t \in Tag : t # 0 /\ tg[t].hs # "none" => tg[t].reaped = 1
\* explicit stuttering in the completed state, so that TLC's deadlock check is exactly
\* "no stuck state": a state without successor in which the program has not completed
Terminated == Finished /\ AllReaped /\ UNCHANGED corevars
MNext == (\E w \in W : UserStep(w) \/ LibStep(w)) \/ Terminated
MSpec == MInit /\ [][MNext]_corevars
\* fairness for liveness: every worker keeps taking steps when it can
MFairSpec == MSpec /\ \A w \in W : WF_corevars(UserStep(w) \/ LibStep(w))

\* no stuck state: whenever nothing is enabled, the main thread is done and every thread
\* ever created has run, finished and been reaped
NoStuck == (~ENABLED MNext) => (Finished /\ AllReaped)
Termination == <>Finished
\* at the end every record and stack ever obtained is on exactly one free list
QuiescentLedger ==
  Finished /\ AllReaped /\ (\A w \in W : cb[w].k = "none" /\ got[w] = 0 /\ (cur[w] = 0 \/ th[cur[w]].tag = 0)) =>
     /\ \A d \in 2..nD : th[d].st = "free" /\ Cardinality({w \in W : d \in SeqSet(freeD[w])}) = 1
     /\ \A s \in 1..nS : stk[s].st = "free"
     /\ \A t \in Tag : t # 0 /\ tg[t].hs # "none" => tg[t].ran = 1 /\ tg[t].reaped = 1
=============================================================================
