SPECIFICATION MSpec
CONSTANTS MUT <- MutOnceCompletedWins
 NW = 2
 MaxD = 3
 MaxS = 2
 MaxTag = 2
 MaxObj = 2
 MaxL = 3
 MaxQ = 5
 NKeys = 2
 SCN = "once"
 NT = 2
 K = 2
 ND = 1
 BCAST = 0
INVARIANT OK
INVARIANT ExactlyOnePlace
INVARIANT RunnableSaved
INVARIANT RunOnce
INVARIANT ReapOnce
CHECK_DEADLOCK TRUE
