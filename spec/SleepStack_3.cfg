SPECIFICATION Spec
CONSTANTS Pushers = {"a", "b"}
 NItems = 4
 MUTANT = "none"
 MaxPops = 5
INVARIANT NoDup
INVARIANT NoLoss
INVARIANT NoLossAlways
INVARIANT Acyclic
CHECK_DEADLOCK FALSE
