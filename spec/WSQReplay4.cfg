SPECIFICATION SpecH
CONSTANTS SIZE = 4
 Thieves = {"t1","t2"}
 MaxOwnerOps = 6
 MaxThiefOps = 4
 TSO = FALSE
 SBMAX = 0
 INITBASE = 0
 OwnerOps = {"push","pop","put"}
 ThiefOps = {"take","pass"}
 FenceR = "full"
 FenceRW = "full"
INVARIANT Dump
INVARIANT NoDup
CONSTRAINT Bound
CONSTRAINT NoOverflow
CHECK_DEADLOCK FALSE
