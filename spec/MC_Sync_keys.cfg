SPECIFICATION MSpec
CONSTANTS NW = 2
 MaxD = 3
 MaxS = 2
 MaxTag = 2
 MaxObj = 2
 MaxL = 3
 MaxQ = 5
 NKeys = 3
 SCN = "keys"
 NT = 2
 K = 3
 ND = 1
 BCAST = 0
INVARIANT OK
INVARIANT ExactlyOnePlace
INVARIANT RunnableSaved
INVARIANT RunOnce
INVARIANT ReapOnce
INVARIANT KeyConsistent
CHECK_DEADLOCK TRUE
