------------------------------ MODULE BulkHuge ------------------------------
(***************************************************************************)
(* C17 for index ranges of up to 2^31 - 1 iterations (too many to count     *)
(* per index): the grain-size parallel_for halves the index space [0, n)   *)
(* until a piece is no longer than the grain and calls the body once per   *)
(* piece with [first + a*step, first + b*step).  The pieces must tile the  *)
(* range exactly once and none may exceed the grain.  TLC computes the set *)
(* of pieces for every case (all orders of processing the halves lead to   *)
(* the same set); the real parallel_for is run on the same cases and the   *)
(* chunks its body receives are compared.  All arithmetic stays within     *)
(* TLC's 32-bit integers: the midpoint is a + (b - a) \div 2.              *)
(***************************************************************************)
EXTENDS Integers, FiniteSets, Sequences, TLC, Json
Big == 2147483647
Cases == { <<0, Big, 1, 268435456>>, <<0, 1500000000, 1, 100000000>>, <<-5, 2000000000, 1, 134217728>>,
           <<0, 2000000000, 2, 67108864>>, <<7, 1073741831, 1, 536870912>>, <<0, 1073741824, 1, 1073741824>>,
           <<-2000000000, 147483647, 1, 300000000>> }
VARIABLES cs, work, leaves
hvars == <<cs, work, leaves>>
N(c) == (c[2] - c[1] + c[3] - 1) \div c[3]
HInit == cs \in Cases /\ work = {<<0, N(cs)>>} /\ leaves = {}
HNext == \E r \in work :
           IF r[2] - r[1] <= cs[4]
           THEN work' = work \ {r} /\ leaves' = leaves \cup {<<cs[1] + r[1] * cs[3], cs[1] + r[2] * cs[3]>>} /\ cs' = cs
           ELSE LET m == r[1] + (r[2] - r[1]) \div 2 IN
                work' = (work \ {r}) \cup {<<r[1], m>>, <<m, r[2]>>} /\ leaves' = leaves /\ cs' = cs
HSpec == HInit /\ [][HNext]_hvars
Done == work = {}
\* the pieces tile [first, first + n*step): each piece starts where the range starts or where another piece ends
Tiles == Done => /\ \A p \in leaves : p[1] < p[2] /\ (p[1] = cs[1] \/ \E q \in leaves : q[2] = p[1])
                 /\ \A p, q \in leaves : p # q => (p[2] <= q[1] \/ q[2] <= p[1])
                 /\ \E p \in leaves : p[2] = cs[1] + N(cs) * cs[3]
                 /\ \A p \in leaves : (p[2] - p[1]) \div cs[3] <= cs[4]
Emit == Done => PrintT(<<"HUGE", ToJson([first |-> cs[1], last |-> cs[2], step |-> cs[3], grain |-> cs[4], chunks |-> leaves])>>)
=============================================================================
