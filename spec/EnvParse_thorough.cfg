SPECIFICATION Spec
CONSTANTS MaxLen = 6
 CAP = 1024
 Alphabet = {"0", "1", "9", ",", "-", ":", "x", " ", "N"}
INVARIANT Emit
INVARIANT WellFormed
CHECK_DEADLOCK FALSE
