SPECIFICATION HSpec
INVARIANT Tiles
INVARIANT Emit
CHECK_DEADLOCK FALSE
