SPECIFICATION MSpec
CONSTANTS NW = 2
 MaxD = 3
 MaxS = 2
 MaxTag = 2
 MaxObj = 1
 MaxQ = 1
 NKeys = 2
 MaxL = 3
 Flags = {0, 1}
 YieldOpts = {2}
 Ops = {"create", "join", "yield", "wsapi"}
INVARIANT OK
INVARIANT ExactlyOnePlace
INVARIANT RunnableSaved
INVARIANT RunOnce
INVARIANT ReapOnce
INVARIANT NoUseAfterFree
INVARIANT StackOwner

INVARIANT QuiescentLedger
CHECK_DEADLOCK TRUE
