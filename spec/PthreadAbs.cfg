SPECIFICATION Spec
INVARIANT EmitResult
INVARIANT EmitStuck
INVARIANT WellFormedEnd
CHECK_DEADLOCK FALSE
