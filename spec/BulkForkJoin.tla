---------------------------- MODULE BulkForkJoin ----------------------------
(***************************************************************************)
(* Bulk fork-join helpers (C17): create_join_many / create_join_various and *)
(* the TBB-like parallel_for / task_group are, observably, the sequential  *)
(* loop.                                                                   *)
(*                                                                         *)
(* Design part: the helpers split an index interval [a,b) in halves, run   *)
(* the left half in a new thread and the right half inline, and join.      *)
(* The worklist machine below is that recursion with every schedule of the *)
(* pending halves; TLC checks that for every problem instance each index   *)
(* of the range is called exactly once, nothing else is called, and the    *)
(* worklist empties (termination), in particular for empty and reversed    *)
(* ranges.                                                                 *)
(* Oracle part: for each instance the set of indices / slots the           *)
(* sequential loop touches is printed; the harness runs the real functions *)
(* on the same instance and compares.                                      *)
(***************************************************************************)
EXTENDS Integers, Sequences, FiniteSets, TLC, Json

CONSTANTS MaxN,        \* create_join_*: number of items 0..MaxN
          Firsts, Lasts, Steps, Grains   \* parallel_for instances

\* (sets with negative members for the configuration files)
FirstsQ == {-1, 0, 3}
LastsQ == {-1, 0, 1, 3, 4, 8}
FirstsT == {-2, -1, 0, 1, 5}
LastsT == {-2, -1, 0, 1, 2, 3, 4, 7, 8, 12}

\* ---- the sequential loop: what must be visited
\* number of iterations of  for (i = first; i < last; i += step)
Count(first, last, step) == IF last <= first THEN 0 ELSE (last - first + step - 1) \div step
Indices(first, last, step) == {first + k * step : k \in 0..(Count(first, last, step) - 1)}

\* ---- the recursion as a worklist of half-open intervals of iteration numbers
VARIABLES inst,    \* the problem instance [kind, first, last, step, grain]
          work,    \* set of pending intervals <<a, b>>
          calls,   \* calls[i] = how many times the body was applied to index i  (function on a small window)
          phase
bvars == <<inst, work, calls, phase>>
Window == -2..(MaxN + 13)
Instances ==
  \* create_join_many / various over n items: argument stride as, result stride rs, id stride is (in elements,
  \* 0 = array not given), at = 1: per-item attribute array given
  {[kind |-> "cjm", first |-> 0, last |-> n, step |-> 1, grain |-> 1, as |-> as, rs |-> rs, is |-> is, at |-> at] :
       n \in 0..MaxN, as \in {1, 2}, rs \in {0, 1, 2}, is \in {0, 1, 3}, at \in {0, 1}}
  \cup {[kind |-> "pfor", first |-> f, last |-> l, step |-> s, grain |-> 1, as |-> 1, rs |-> 0, is |-> 0, at |-> 0] : f \in Firsts, l \in Lasts, s \in Steps}
  \cup {[kind |-> "pforg", first |-> f, last |-> l, step |-> s, grain |-> g, as |-> 1, rs |-> 0, is |-> 0, at |-> 0] : f \in Firsts, l \in Lasts, s \in Steps, g \in Grains}
  \* task_group with n run() calls (inline capacity of a task list node is smaller than MaxN + 12)
  \* (its tasks are not produced by halving: one leaf)
  \cup {[kind |-> "tg", first |-> 0, last |-> n, step |-> 1, grain |-> MaxN + 12, as |-> 1, rs |-> 0, is |-> 0, at |-> d] : n \in 0..(MaxN + 11), d \in {0, 1}}
N(i) == Count(i.first, i.last, i.step)
BInit == /\ inst \in Instances
         /\ work = {<<0, N(inst)>>}
         /\ calls = [i \in Window |-> 0] /\ phase = "run"
\* process one pending interval: empty => nothing; small enough => apply the body; otherwise split in halves
Step ==
  /\ phase = "run" /\ work # {}
  /\ \E iv \in work :
       LET a == iv[1]  b == iv[2] IN
       IF b - a <= 0 THEN work' = work \ {iv} /\ calls' = calls
       ELSE IF b - a <= inst.grain
       THEN /\ work' = work \ {iv}
            /\ calls' = [i \in Window |-> IF \E k \in a..(b - 1) : i = inst.first + k * inst.step THEN calls[i] + 1 ELSE calls[i]]
       ELSE LET c == a + (b - a) \div 2 IN
            /\ work' = (work \ {iv}) \cup {<<a, c>>, <<c, b>>} /\ calls' = calls
  /\ UNCHANGED <<inst, phase>>
Finish == phase = "run" /\ work = {} /\ phase' = "done" /\ UNCHANGED <<inst, work, calls>>
BNext == Step \/ Finish
BSpec == BInit /\ [][BNext]_bvars /\ WF_bvars(BNext)

\* exactly once for every index of the range, not at all elsewhere
VisitOnce == phase = "done" =>
   \A i \in Window : calls[i] = (IF i \in Indices(inst.first, inst.last, inst.step) THEN 1 ELSE 0)
NeverTwice == \A i \in Window : calls[i] <= 1
\* the worklist measure (total length of pending intervals of length > grain, plus their number) decreases
Terminates == <>(phase = "done")
\* printed once per instance: the expected observable outcome
Emit == phase = "done" =>
   PrintT(<<"CASE", ToJson([kind |-> inst.kind, first |-> inst.first, last |-> inst.last, step |-> inst.step, grain |-> inst.grain,
                            as |-> inst.as, rs |-> inst.rs, is |-> inst.is, at |-> inst.at,
                            n |-> N(inst), idx |-> {i \in Window : calls[i] = 1},
                            \* slots (element offsets) the helper may write: results and thread ids of the items
                            rslots |-> {i * inst.rs : i \in {j \in 0..(N(inst) - 1) : inst.rs > 0}},
                            islots |-> {i * inst.is : i \in {j \in 0..(N(inst) - 1) : inst.is > 0}}])>>)
=============================================================================
