SPECIFICATION MSpec
CONSTANTS NW = 2
 MaxD = 2
 MaxS = 2
 MaxTag = 1
 MaxObj = 1
 MaxQ = 1
 NKeys = 2
 MaxL = 2
 Flags = {0, 1, 2}
 YieldOpts = {0}
 Ops = {"create", "join", "tryjoin", "detach", "yield"}
INVARIANT OK
INVARIANT ExactlyOnePlace
INVARIANT RunnableSaved
INVARIANT RunOnce
INVARIANT ReapOnce
INVARIANT NoUseAfterFree
INVARIANT StackOwner

INVARIANT QuiescentLedger
CHECK_DEADLOCK TRUE
