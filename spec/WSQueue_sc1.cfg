SPECIFICATION Spec
CONSTANTS SIZE = 4
 Thieves = {"t1"}
 MaxOwnerOps = 4
 MaxThiefOps = 3
 TSO = FALSE
 SBMAX = 0
 INITBASE = 2
 OwnerOps = {"push","pop","put"}
 ThiefOps = {"take","pass"}
 FenceR = "full"
 FenceRW = "full"
INVARIANT NoDup
INVARIANT NoLoss
INVARIANT BoundsOK
CHECK_DEADLOCK FALSE
