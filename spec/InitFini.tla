------------------------------ MODULE InitFini ------------------------------
(***************************************************************************)
(* Initialisation / finalisation of the library (C15).  Any number of      *)
(* callers may race to initialise (explicitly or implicitly on first       *)
(* use); exactly one of them really initialises, with exactly the          *)
(* requested number of workers (the CPU count when the request is unset    *)
(* or not positive); every worker starts once and reports a rank in        *)
(* [0, workers); finalisation stops every worker and a fresh               *)
(* initialisation with different settings works.                           *)
(* One action per hook event (InitCas, InitReally, WorkerStart, InitDone,  *)
(* FiniBegin, WorkerExit, FiniDone) plus the user-visible observations.    *)
(***************************************************************************)
EXTENDS Integers, FiniteSets, TLC
CONSTANTS MaxNW, NCPU

VARIABLES ist,      \* "uninit" | "initializing" | "initialized" | "finalizing"
          req,      \* number of workers requested for the next initialisation (0 = unset / not positive)
          nw,       \* number of workers of the current generation
          started, exited,
          gens,     \* completed generations
          bad
ifvars == <<ist, req, nw, started, exited, gens, bad>>
Fail(m) == IF bad = "ok" THEN m ELSE bad

IFInit == ist = "uninit" /\ req = 0 /\ nw = 0 /\ started = {} /\ exited = {} /\ gens = 0 /\ bad = "ok"

\* the program states how many workers it asks for (attribute object or MYTH_NUM_WORKERS)
URequest(n) == ist = "uninit" /\ req' = (IF n > 0 THEN n ELSE 0) /\ UNCHANGED <<ist, nw, started, exited, gens, bad>>
InitCas(ok) ==
  /\ ok = (IF ist = "uninit" THEN 1 ELSE 0)
  /\ ist' = (IF ok = 1 THEN "initializing" ELSE ist)
  /\ UNCHANGED <<req, nw, started, exited, gens, bad>>
InitReally(n) ==
  /\ ist = "initializing" /\ nw = 0
  /\ nw' = n /\ started' = {} /\ exited' = {}
  /\ bad' = IF n # (IF req > 0 THEN req ELSE NCPU) THEN Fail("C15: initialised with a number of workers other than the requested one") ELSE bad
  /\ UNCHANGED <<ist, req, gens>>
WorkerStart(r) ==
  /\ ist = "initializing" /\ nw > 0
  /\ started' = started \cup {r}
  /\ bad' = IF r < 0 \/ r >= nw THEN Fail("C15: worker rank outside [0, workers)")
            ELSE IF r \in started THEN Fail("C15: worker started twice") ELSE bad
  /\ UNCHANGED <<ist, req, nw, exited, gens>>
InitDone ==
  /\ ist = "initializing"
  /\ ist' = "initialized"
  /\ bad' = IF started # 0..(nw - 1) THEN Fail("C15: initialisation completed before every worker had started") ELSE bad
  /\ UNCHANGED <<req, nw, started, exited, gens>>
UNumWorkers(n) ==
  /\ ist = "initialized"
  /\ bad' = IF n # nw THEN Fail("C15: reported number of workers differs from the running one") ELSE bad
  /\ UNCHANGED <<ist, req, nw, started, exited, gens>>
UWorkerNum(r) ==
  /\ ist = "initialized"
  /\ bad' = IF r < 0 \/ r >= nw THEN Fail("C15: reported worker index outside [0, workers)") ELSE bad
  /\ UNCHANGED <<ist, req, nw, started, exited, gens>>
\* C10 across initialisations: a freshly initialised library hands out exactly NKEYS pairwise distinct keys
NKEYS == 1024
UKeysExhausted(n, distinct) ==
  /\ ist = "initialized"
  /\ bad' = IF n # NKEYS \/ distinct # 1 THEN Fail("C10: a fresh initialisation does not hand out exactly 1024 pairwise distinct keys") ELSE bad
  /\ UNCHANGED <<ist, req, nw, started, exited, gens>>
FiniBegin == ist = "initialized" /\ ist' = "finalizing" /\ UNCHANGED <<req, nw, started, exited, gens, bad>>
WorkerExit(r) ==
  /\ ist = "finalizing"
  /\ exited' = exited \cup {r}
  /\ bad' = IF r \notin started \/ r \in exited THEN Fail("C15: a worker that is not running exited") ELSE bad
  /\ UNCHANGED <<ist, req, nw, started, gens>>
FiniDone ==
  /\ ist = "finalizing"
  /\ ist' = "uninit" /\ nw' = 0 /\ gens' = gens + 1 /\ req' = 0
  /\ bad' = IF exited # started THEN Fail("C15: finalisation completed while a worker is still running") ELSE bad
  /\ UNCHANGED <<started, exited>>

IFNext ==
  \/ \E n \in -1..MaxNW : URequest(n) \/ InitReally(n) \/ UNumWorkers(n)
  \/ \E ok \in {0, 1} : InitCas(ok)
  \/ \E r \in 0..(MaxNW - 1) : WorkerStart(r) \/ UWorkerNum(r) \/ WorkerExit(r)
  \/ InitDone \/ FiniBegin \/ FiniDone
\* design exploration: the environment only takes the steps a correct library takes; bad must stay "ok"
DesignNext ==
  \/ gens < 2 /\ \E n \in -1..MaxNW : URequest(n)
  \/ gens < 2 /\ InitCas(IF ist = "uninit" THEN 1 ELSE 0)
  \/ InitReally(IF req > 0 THEN req ELSE NCPU)
  \/ \E r \in 0..(MaxNW - 1) : (r < nw /\ r \notin started /\ WorkerStart(r)) \/ (r \in started \ exited /\ WorkerExit(r))
  \/ (started = 0..(nw - 1) /\ nw > 0 /\ InitDone)
  \/ UNumWorkers(nw) \/ (\E r \in 0..(MaxNW - 1) : r < nw /\ UWorkerNum(r))
  \/ FiniBegin \/ (exited = started /\ FiniDone)
DesignSpec == IFInit /\ [][DesignNext]_ifvars
IFOK == bad = "ok"
OnlyOneInit == ist = "initializing" => nw \in 0..MaxNW
=============================================================================
