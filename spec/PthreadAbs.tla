----------------------------- MODULE PthreadAbs -----------------------------
(***************************************************************************)
(* C16: reference semantics of the supported POSIX-threads subset.         *)
(*                                                                         *)
(* A program is a list of threads, each a list of operations (module       *)
(* PthProgs, generated: the very same programs are interpreted by          *)
(* harness/pthprog.c through the pthread API).  Every operation is one     *)
(* atomic step of the abstract semantics POSIX gives it: a lock is         *)
(* acquired when free, a condition wait in its canonical loop is an await  *)
(* on the predicate, a barrier releases when the last participant arrives  *)
(* (one of them is told it is the serial thread), once runs its routine    *)
(* exactly once, a key's value is private to the thread and its destructor *)
(* runs with the value when the thread ends, join yields the value the     *)
(* thread returned or passed to pthread_exit.                              *)
(*                                                                         *)
(* TLC explores EVERY interleaving of every program and prints the         *)
(* observable result of each terminal state.  A program whose terminal     *)
(* states all carry the same result, and which has no deadlock, is         *)
(* DETERMINATE -- the only kind of program the property speaks about --    *)
(* and that result is what both the system library and MassiveThreads      *)
(* (either redirection mechanism, any number of workers) must print.       *)
(***************************************************************************)
EXTENDS Integers, Sequences, FiniteSets, TLC, Json, PthProgs

VARIABLES pi,      \* which program
          pc,      \* pc[t]: index of the next operation of thread t (0: not created yet)
          st,      \* st[t] \in {"none", "run", "inbar", "done", "joined"}
          det,     \* det[t]: detached
          retv,    \* value returned / passed to pthread_exit
          mown,    \* mown[m]: 0 or the thread holding mutex / spin lock m
          var,     \* shared integer variables
          bar,     \* bar[b] = [cnt, gen]: arrivals of the current round
          bgen,    \* bgen[t]: barrier generation thread t waits for
          once,    \* once[o] \in {0, 1}
          spec,    \* spec[t][k]: thread-specific value (0 = NULL)
          out,     \* out[t]: values observed by thread t, in program order
          glob,    \* [dtsum, dtcalls, oncecnt, serials]
          tmp      \* tmp[t]: value loaded by the first half of an addition (NoTmp otherwise)
vars == <<pi, pc, st, det, retv, mown, var, bar, bgen, once, spec, out, glob, tmp>>
NoTmp == -999999

P == Progs[pi]
NT == Len(P.threads)
T == 1..NT                      \* thread 1 is main
Op(t) == P.threads[t][pc[t]]
NObj == 4
Obj == 0..(NObj - 1)

Init == /\ pi \in 1..Len(Progs)
        /\ pc = [t \in 1..8 |-> IF t = 1 THEN 1 ELSE 0]
        /\ st = [t \in 1..8 |-> IF t = 1 THEN "run" ELSE "none"]
        /\ det = [t \in 1..8 |-> FALSE] /\ retv = [t \in 1..8 |-> 0]
        /\ mown = [m \in 0..(2 * NObj - 1) |-> 0]
        /\ var = [v \in Obj |-> 0]
        /\ bar = [b \in Obj |-> 0] /\ bgen = [t \in 1..8 |-> 0]
        /\ once = [o \in Obj |-> 0]
        /\ spec = [t \in 1..8 |-> [k \in Obj |-> 0]]
        /\ out = [t \in 1..8 |-> <<>>]
        /\ glob = [dtsum |-> 0, dtcalls |-> 0, oncecnt |-> 0, serials |-> 0]
        /\ tmp = [t \in 1..8 |-> NoTmp]

Adv(t) == pc' = [pc EXCEPT ![t] = @ + 1]
Emit(t, v) == out' = [out EXCEPT ![t] = Append(@, v)]
\* thread t ends with value v: destructors of its non-NULL values run (keys that have one)
End(t, v) ==
  /\ st' = [st EXCEPT ![t] = "done"] /\ retv' = [retv EXCEPT ![t] = v]
  /\ LET ks == {k \in Obj : k < Len(P.keydt) /\ P.keydt[k + 1] = 1 /\ spec[t][k] # 0} IN
     LET RECURSIVE Sum(_)
         Sum(S) == IF S = {} THEN 0 ELSE LET k == CHOOSE x \in S : TRUE IN spec[t][k] + Sum(S \ {k}) IN
     \* (the main thread leaves by returning from main: the process ends, no destructors)
     glob' = IF t = 1 THEN glob ELSE [glob EXCEPT !.dtsum = @ + Sum(ks), !.dtcalls = @ + Cardinality(ks)]
  /\ spec' = [spec EXCEPT ![t] = [k \in Obj |-> 0]]
  /\ UNCHANGED <<pi, pc, det, mown, var, bar, bgen, once, out, tmp>>

Step(t) ==
  /\ st[t] = "run" /\ pc[t] >= 1
  /\ IF pc[t] > Len(P.threads[t]) THEN End(t, 1000 + t)          \* falls off the end: returns its default value
     ELSE LET o == Op(t) IN
     CASE o.op = "CREATE" -> /\ st[o.a] = "none"
                             /\ st' = [st EXCEPT ![o.a] = "run"] /\ pc' = [pc EXCEPT ![t] = @ + 1, ![o.a] = 1]
                             /\ det' = [det EXCEPT ![o.a] = (o.b = 2)]       \* attribute kind 2: created detached
                             /\ UNCHANGED <<pi, retv, mown, var, bar, bgen, once, spec, out, glob, tmp>>
       [] o.op = "JOIN" -> /\ st[o.a] = "done" /\ ~det[o.a]
                           /\ st' = [st EXCEPT ![o.a] = "joined"] /\ Adv(t) /\ Emit(t, retv[o.a])
                           /\ UNCHANGED <<pi, det, retv, mown, var, bar, bgen, once, spec, glob, tmp>>
       [] o.op = "DETACH" -> /\ st[o.a] # "none" /\ det' = [det EXCEPT ![o.a] = TRUE] /\ Adv(t)
                             /\ UNCHANGED <<pi, st, retv, mown, var, bar, bgen, once, spec, out, glob, tmp>>
       [] o.op \in {"RET", "EXIT"} -> End(t, o.a)
       [] o.op \in {"LOCK", "TLOCK", "SPIN"} ->          \* (TLOCK: trylock in a loop with yields)
                           /\ mown[o.a] = 0 /\ mown' = [mown EXCEPT ![o.a] = t] /\ Adv(t)
                           /\ UNCHANGED <<pi, st, det, retv, var, bar, bgen, once, spec, out, glob, tmp>>
       [] o.op \in {"UNLOCK", "SPUN"} ->
                           /\ mown[o.a] = t /\ mown' = [mown EXCEPT ![o.a] = 0] /\ Adv(t)
                           /\ UNCHANGED <<pi, st, det, retv, var, bar, bgen, once, spec, out, glob, tmp>>
       \* var += k is a load followed by a store (the C program's increment is not atomic): an addition that is not
       \* protected by one lock common to all its users makes the program indeterminate, and TLC finds that out
       [] o.op = "ADD" -> /\ (IF tmp[t] = NoTmp
                              THEN /\ tmp' = [tmp EXCEPT ![t] = var[o.a]] /\ UNCHANGED <<pc, var>>
                              ELSE /\ var' = [var EXCEPT ![o.a] = tmp[t] + o.b] /\ tmp' = [tmp EXCEPT ![t] = NoTmp] /\ Adv(t))
                          /\ UNCHANGED <<pi, st, det, retv, mown, bar, bgen, once, spec, out, glob>>
       [] o.op = "READ" -> /\ Emit(t, var[o.a]) /\ Adv(t)
                           /\ UNCHANGED <<pi, st, det, retv, mown, var, bar, bgen, once, spec, glob, tmp>>
       \* lock m; while (var != val) cond_wait(c, m); unlock m     -- an await on the predicate
       [] o.op = "WAITV" -> /\ mown[o.a] = 0 /\ var[o.b] = o.c /\ Adv(t)
                            /\ UNCHANGED <<pi, st, det, retv, mown, var, bar, bgen, once, spec, out, glob, tmp>>
       \* lock m; var = val; signal / broadcast c; unlock m
       [] o.op = "SIGV" -> /\ mown[o.a] = 0 /\ var' = [var EXCEPT ![o.b] = o.c] /\ Adv(t)
                           /\ UNCHANGED <<pi, st, det, retv, mown, bar, bgen, once, spec, out, glob, tmp>>
       [] o.op = "BARRIER" ->
            IF bar[o.a] + 1 = P.barn[o.a + 1]
            THEN \* last arriver: everybody of this round is released; exactly one return value says "serial thread"
                 /\ bar' = [bar EXCEPT ![o.a] = 0]
                 /\ st' = [u \in 1..8 |-> IF st[u] = "inbar" /\ bgen[u] = o.a THEN "run" ELSE st[u]]
                 /\ glob' = [glob EXCEPT !.serials = @ + 1] /\ Adv(t)
                 /\ UNCHANGED <<pi, det, retv, mown, var, bgen, once, spec, out, tmp>>
            ELSE /\ bar' = [bar EXCEPT ![o.a] = @ + 1]
                 /\ st' = [st EXCEPT ![t] = "inbar"] /\ bgen' = [bgen EXCEPT ![t] = o.a] /\ Adv(t)
                 /\ UNCHANGED <<pi, det, retv, mown, var, once, spec, out, glob, tmp>>
       [] o.op = "ONCE" -> /\ once' = [once EXCEPT ![o.a] = 1]
                           /\ glob' = IF once[o.a] = 0 THEN [glob EXCEPT !.oncecnt = @ + 1] ELSE glob
                           /\ Adv(t) /\ UNCHANGED <<pi, st, det, retv, mown, var, bar, bgen, spec, out, tmp>>
       [] o.op = "SETSPEC" -> /\ spec' = [spec EXCEPT ![t][o.a] = o.b] /\ Adv(t)
                              /\ UNCHANGED <<pi, st, det, retv, mown, var, bar, bgen, once, out, glob, tmp>>
       [] o.op = "GETSPEC" -> /\ Emit(t, spec[t][o.a]) /\ Adv(t)
                              /\ UNCHANGED <<pi, st, det, retv, mown, var, bar, bgen, once, spec, glob, tmp>>
       [] o.op = "SELF" -> /\ Emit(t, 1) /\ Adv(t)       \* pthread_equal(self, self) and not equal to another live thread
                           /\ UNCHANGED <<pi, st, det, retv, mown, var, bar, bgen, once, spec, glob, tmp>>
       [] OTHER -> \* YIELD, SLEEP: no observable effect
                   /\ Adv(t) /\ UNCHANGED <<pi, st, det, retv, mown, var, bar, bgen, once, spec, out, glob, tmp>>

AllDone == \A t \in T : st[t] \in {"done", "joined"}
Result == [vars |-> [v \in Obj |-> var[v]], outs |-> [t \in T |-> out[t]], glob |-> glob]
\* terminal states stutter, so that a deadlock reported by TLC is a real one (some thread can never finish)
Terminated == AllDone /\ UNCHANGED vars
Next == (\E t \in T : Step(t)) \/ Terminated
Spec == Init /\ [][Next]_vars

\* printed for every terminal state: the check collects the lines per program
EmitResult == AllDone => PrintT(<<"RESULT", pi, ToJson(Result)>>)
EmitStuck == (~AllDone /\ \A t \in T : ~ENABLED Step(t)) => PrintT(<<"STUCK", pi>>)
\* every child is joined xor detached at the end, no lock is left held (sanity of the generated programs)
WellFormedEnd == AllDone => /\ \A t \in T : t # 1 => (st[t] = "joined") # det[t]
                            /\ \A m \in DOMAIN mown : mown[m] = 0
=============================================================================
