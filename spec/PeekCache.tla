------------------------------ MODULE PeekCache ------------------------------
(***************************************************************************)
(* The hint cache of a run queue (work-stealing API: myth_wsapi_runqueue_   *)
(* peek) at the granularity of its shared accesses.  The cache holds a     *)
(* copy of the hint data of the queue's oldest thread behind a sequence    *)
(* counter (a seqlock):                                                    *)
(*   writers -- always under the queue lock --                             *)
(*     fill       (a peeker that finds the cache empty):                   *)
(*                seq := s+1 ; ptr := t ; data := hint(t) ; seq := s+2     *)
(*     invalidate (a successful wsapi take; the owner popping its last     *)
(*                entry):  seq := s+1 ; ptr := 0 ; seq := s+2              *)
(*   reader (no lock):  s0 := seq ; copy ptr, data ; s1 := seq ;           *)
(*                      retry while s0 is odd or s1 # s0                   *)
(* The data of a thread is modelled as two words (both equal to the        *)
(* thread's hint) so that a torn copy is visible.                          *)
(*                                                                         *)
(* Checked: a peek that returns thread t returns t's hint in both words    *)
(* (never a mixture of two fills, never data without its thread), and t    *)
(* was the cached thread at some moment during the call.  This module is   *)
(* model-checked only (sequentially consistent memory); the conformance    *)
(* of the code is established at Level C through the QPeek event.          *)
(***************************************************************************)
EXTENDS Integers, Sequences, FiniteSets, TLC

CONSTANTS Peekers,      \* peeker processes (two are needed for one to fill the cache while the other reads it)
          NThreads,     \* threads 1..NThreads are pushed one after the other by the owner
          MaxPeeks,     \* calls of the peeker
          MaxTakes      \* calls of the taker (successful wsapi takes)
Th == 1..NThreads
Hint(t) == 100 + t

VARIABLES q,            \* the queue, oldest first (its own synchronisation is Level F of WSQueue.tla)
          lock,         \* the queue lock: 0 or the process holding it
          seq, cptr, cd1, cd2,      \* the cache
          pc, loc,      \* per process
          pushed, np, nt,
          res,          \* result of the last completed peek: [t, d1, d2] or none
          during,       \* cached threads observed since the current peek began (ghost)
          bad
vars == <<q, lock, seq, cptr, cd1, cd2, pc, loc, pushed, np, nt, res, during, bad>>
Procs == {"owner", "taker"} \cup Peekers
NoLoc == [s |-> 0, t |-> 0, a |-> 0, b |-> 0, s0 |-> 0]

Init == /\ q = <<>> /\ lock = "free" /\ seq = 0 /\ cptr = 0 /\ cd1 = 0 /\ cd2 = 0
        /\ pc = [p \in Procs |-> "idle"] /\ loc = [p \in Procs |-> NoLoc]
        /\ pushed = 0 /\ np = 0 /\ nt = 0 /\ res = [p \in Peekers |-> <<>>] /\ during = [p \in Peekers |-> {}] /\ bad = "ok"
Goto(p, l) == pc' = [pc EXCEPT ![p] = l]
Observe == during' = [p \in Peekers |-> IF pc[p] # "idle" THEN during[p] \cup {cptr'} ELSE during[p]]

\* ---- owner: pushes threads; pops the newest; popping the last entry invalidates the cache under the lock
Push == /\ pc["owner"] = "idle" /\ pushed < NThreads
        /\ q' = Append(q, pushed + 1) /\ pushed' = pushed + 1
        /\ UNCHANGED <<lock, seq, cptr, cd1, cd2, pc, loc, np, nt, res, during, bad>>
PopStart == /\ pc["owner"] = "idle" /\ q # <<>> /\ lock = "free"
            /\ IF Len(q) = 1 THEN lock' = "owner" /\ Goto("owner", "inv1") /\ q' = <<>>
               ELSE lock' = lock /\ pc' = pc /\ q' = SubSeq(q, 1, Len(q) - 1)         \* fast path: the cache is not touched
            /\ UNCHANGED <<seq, cptr, cd1, cd2, loc, pushed, np, nt, res, during, bad>>
\* ---- taker: a successful wsapi take removes the oldest entry and invalidates the cache, all under the lock
TakeStart == /\ pc["taker"] = "idle" /\ nt < MaxTakes /\ q # <<>> /\ lock = "free"
             /\ lock' = "taker" /\ q' = Tail(q) /\ nt' = nt + 1 /\ Goto("taker", "inv1")
             /\ UNCHANGED <<seq, cptr, cd1, cd2, loc, pushed, np, res, during, bad>>
\* the invalidation sequence (owner or taker)
Inv(p) ==
  \/ /\ pc[p] = "inv1" /\ loc' = [loc EXCEPT ![p].s = seq] /\ seq' = seq + 1 /\ Goto(p, "inv2")
     /\ UNCHANGED <<q, lock, cptr, cd1, cd2, pushed, np, nt, res, during, bad>>
  \/ /\ pc[p] = "inv2" /\ cptr' = 0 /\ Goto(p, "inv3") /\ Observe
     /\ UNCHANGED <<q, lock, seq, cd1, cd2, loc, pushed, np, nt, res, bad>>
  \/ /\ pc[p] = "inv3" /\ seq' = loc[p].s + 2 /\ Goto(p, "inv4")
     /\ UNCHANGED <<q, lock, cptr, cd1, cd2, loc, pushed, np, nt, res, during, bad>>
  \/ /\ pc[p] = "inv4" /\ lock' = "free" /\ Goto(p, "idle")
     /\ UNCHANGED <<q, seq, cptr, cd1, cd2, loc, pushed, np, nt, res, during, bad>>

\* ---- peeker
PeekStart(p) ==
             /\ pc[p] = "idle" /\ np < MaxPeeks /\ np' = np + 1
             /\ Goto(p, "chk") /\ during' = [during EXCEPT ![p] = {cptr}] /\ res' = [res EXCEPT ![p] = <<>>]
             /\ UNCHANGED <<q, lock, seq, cptr, cd1, cd2, loc, pushed, nt, bad>>
Peek(p) ==
  \/ /\ pc[p] = "chk"                 \* queue empty? -> NULL; cache empty? -> try to fill it
     /\ IF q = <<>> THEN Goto(p, "idle") /\ res' = [res EXCEPT ![p] = <<0, 0, 0>>] /\ UNCHANGED lock
        ELSE IF cptr = 0 THEN (IF lock = "free" THEN lock' = p /\ Goto(p, "fill0") ELSE Goto(p, "chk") /\ UNCHANGED lock) /\ res' = res
        ELSE Goto(p, "rd0") /\ UNCHANGED lock /\ res' = res
     /\ UNCHANGED <<q, seq, cptr, cd1, cd2, loc, pushed, np, nt, during, bad>>
  \/ /\ pc[p] = "fill0"               \* under the lock: check again, the oldest thread (if any) goes into the cache
     /\ IF cptr = 0 /\ q # <<>> THEN loc' = [loc EXCEPT ![p].t = Head(q), ![p].s = seq] /\ seq' = seq + 1 /\ Goto(p, "fill1")
        ELSE loc' = loc /\ seq' = seq /\ Goto(p, "fill9")
     /\ UNCHANGED <<q, lock, cptr, cd1, cd2, pushed, np, nt, res, during, bad>>
  \/ /\ pc[p] = "fill1" /\ cptr' = loc[p].t /\ Goto(p, "fill2") /\ Observe
     /\ UNCHANGED <<q, lock, seq, cd1, cd2, loc, pushed, np, nt, res, bad>>
  \/ /\ pc[p] = "fill2" /\ cd1' = Hint(loc[p].t) /\ Goto(p, "fill3")
     /\ UNCHANGED <<q, lock, seq, cptr, cd2, loc, pushed, np, nt, res, during, bad>>
  \/ /\ pc[p] = "fill3" /\ cd2' = Hint(loc[p].t) /\ Goto(p, "fill4")
     /\ UNCHANGED <<q, lock, seq, cptr, cd1, loc, pushed, np, nt, res, during, bad>>
  \/ /\ pc[p] = "fill4" /\ seq' = loc[p].s + 2 /\ Goto(p, "fill9")
     /\ UNCHANGED <<q, lock, cptr, cd1, cd2, loc, pushed, np, nt, res, during, bad>>
  \/ /\ pc[p] = "fill9" /\ lock' = "free" /\ Goto(p, "rd0")
     /\ UNCHANGED <<q, seq, cptr, cd1, cd2, loc, pushed, np, nt, res, during, bad>>
  \/ /\ pc[p] = "rd0" /\ loc' = [loc EXCEPT ![p].s0 = seq] /\ Goto(p, "rd1")
     /\ UNCHANGED <<q, lock, seq, cptr, cd1, cd2, pushed, np, nt, res, during, bad>>
  \/ /\ pc[p] = "rd1" /\ loc' = [loc EXCEPT ![p].t = cptr] /\ Goto(p, "rd2")
     /\ UNCHANGED <<q, lock, seq, cptr, cd1, cd2, pushed, np, nt, res, during, bad>>
  \/ /\ pc[p] = "rd2" /\ loc' = [loc EXCEPT ![p].a = cd1] /\ Goto(p, "rd3")
     /\ UNCHANGED <<q, lock, seq, cptr, cd1, cd2, pushed, np, nt, res, during, bad>>
  \/ /\ pc[p] = "rd3" /\ loc' = [loc EXCEPT ![p].b = cd2] /\ Goto(p, "rd4")
     /\ UNCHANGED <<q, lock, seq, cptr, cd1, cd2, pushed, np, nt, res, during, bad>>
  \/ /\ pc[p] = "rd4"                 \* s1 := seq ; accept only an even, unchanged sequence number
     /\ IF loc[p].s0 % 2 = 1 \/ seq # loc[p].s0 THEN Goto(p, "rd0") /\ res' = res /\ bad' = bad
        ELSE /\ Goto(p, "idle") /\ res' = [res EXCEPT ![p] = <<loc[p].t, loc[p].a, loc[p].b>>]
             /\ bad' = IF loc[p].t # 0 /\ (loc[p].a # Hint(loc[p].t) \/ loc[p].b # Hint(loc[p].t)) THEN "peek returned a thread with data that is not that thread's hint"
                       ELSE IF loc[p].t \notin during[p] THEN "peek returned a thread that was not cached at any moment of the call"
                       ELSE bad
     /\ UNCHANGED <<q, lock, seq, cptr, cd1, cd2, loc, pushed, np, nt, during>>

Next == Push \/ PopStart \/ TakeStart \/ Inv("owner") \/ Inv("taker") \/ \E p \in Peekers : PeekStart(p) \/ Peek(p)
Spec == Init /\ [][Next]_vars
OK == bad = "ok"
\* the sequence number is odd exactly while a writer is between its two increments
SeqParity == (seq % 2 = 1) <=> (\E p \in Procs : pc[p] \in {"inv2", "inv3", "fill1", "fill2", "fill3", "fill4"})
=============================================================================
