------------------------------ MODULE PthProgs ------------------------------
(* SAMPLE of the module that tools/verif.py generates for every run of the C16 check (the check works on a
   private copy of PthreadAbs.tla next to its own PthProgs.tla); kept here so that PthreadAbs.tla parses on its own *)
Progs == <<
  [threads |-> <<
      <<[op |-> "CREATE", a |-> 2, b |-> 0, c |-> 0], [op |-> "CREATE", a |-> 3, b |-> 0, c |-> 0], [op |-> "LOCK", a |-> 0, b |-> 0, c |-> 0], [op |-> "READ", a |-> 0, b |-> 0, c |-> 0], [op |-> "UNLOCK", a |-> 0, b |-> 0, c |-> 0], [op |-> "JOIN", a |-> 2, b |-> 0, c |-> 0], [op |-> "JOIN", a |-> 3, b |-> 0, c |-> 0]>>,
      <<[op |-> "LOCK", a |-> 0, b |-> 0, c |-> 0], [op |-> "ADD", a |-> 0, b |-> 2, c |-> 0], [op |-> "UNLOCK", a |-> 0, b |-> 0, c |-> 0]>>,
      <<[op |-> "LOCK", a |-> 0, b |-> 0, c |-> 0], [op |-> "ADD", a |-> 0, b |-> 3, c |-> 0], [op |-> "UNLOCK", a |-> 0, b |-> 0, c |-> 0]>> >>,
   barn |-> <<0, 0, 0, 0>>, keydt |-> <<0, 1, 0, 0>>],
  [threads |-> <<
      <<[op |-> "CREATE", a |-> 2, b |-> 4, c |-> 0], [op |-> "CREATE", a |-> 3, b |-> 0, c |-> 0], [op |-> "LOCK", a |-> 1, b |-> 0, c |-> 0], [op |-> "ADD", a |-> 0, b |-> 7, c |-> 0], [op |-> "UNLOCK", a |-> 1, b |-> 0, c |-> 0], [op |-> "JOIN", a |-> 2, b |-> 0, c |-> 0], [op |-> "JOIN", a |-> 3, b |-> 0, c |-> 0], [op |-> "READ", a |-> 0, b |-> 0, c |-> 0]>>,
      <<[op |-> "LOCK", a |-> 1, b |-> 0, c |-> 0], [op |-> "ADD", a |-> 0, b |-> 5, c |-> 0], [op |-> "UNLOCK", a |-> 1, b |-> 0, c |-> 0], [op |-> "SLEEP", a |-> 1, b |-> 0, c |-> 0]>>,
      <<[op |-> "LOCK", a |-> 1, b |-> 0, c |-> 0], [op |-> "ADD", a |-> 0, b |-> 5, c |-> 0], [op |-> "UNLOCK", a |-> 1, b |-> 0, c |-> 0], [op |-> "SELF", a |-> 0, b |-> 0, c |-> 0], [op |-> "LOCK", a |-> 1, b |-> 0, c |-> 0], [op |-> "ADD", a |-> 0, b |-> 1, c |-> 0], [op |-> "UNLOCK", a |-> 1, b |-> 0, c |-> 0], [op |-> "EXIT", a |-> 3003, b |-> 0, c |-> 0]>> >>,
   barn |-> <<0, 0, 0, 0>>, keydt |-> <<1, 0, 0, 0>>],
  [threads |-> <<
      <<[op |-> "CREATE", a |-> 2, b |-> 3, c |-> 0], [op |-> "CREATE", a |-> 3, b |-> 4, c |-> 0], [op |-> "ONCE", a |-> 0, b |-> 0, c |-> 0], [op |-> "LOCK", a |-> 1, b |-> 0, c |-> 0], [op |-> "ADD", a |-> 1, b |-> 7, c |-> 0], [op |-> "UNLOCK", a |-> 1, b |-> 0, c |-> 0], [op |-> "JOIN", a |-> 3, b |-> 0, c |-> 0], [op |-> "JOIN", a |-> 2, b |-> 0, c |-> 0], [op |-> "READ", a |-> 1, b |-> 0, c |-> 0]>>,
      <<[op |-> "ONCE", a |-> 0, b |-> 0, c |-> 0], [op |-> "TLOCK", a |-> 1, b |-> 0, c |-> 0], [op |-> "ADD", a |-> 1, b |-> 1, c |-> 0], [op |-> "UNLOCK", a |-> 1, b |-> 0, c |-> 0], [op |-> "YIELD", a |-> 0, b |-> 0, c |-> 0], [op |-> "RET", a |-> 2002, b |-> 0, c |-> 0]>>,
      <<[op |-> "ONCE", a |-> 0, b |-> 0, c |-> 0], [op |-> "TLOCK", a |-> 1, b |-> 0, c |-> 0], [op |-> "ADD", a |-> 1, b |-> 1, c |-> 0], [op |-> "UNLOCK", a |-> 1, b |-> 0, c |-> 0], [op |-> "RET", a |-> 2003, b |-> 0, c |-> 0]>> >>,
   barn |-> <<0, 0, 0, 0>>, keydt |-> <<1, 1, 1, 0>>],
  [threads |-> <<
      <<[op |-> "CREATE", a |-> 2, b |-> 0, c |-> 0], [op |-> "ONCE", a |-> 0, b |-> 0, c |-> 0], [op |-> "LOCK", a |-> 0, b |-> 0, c |-> 0], [op |-> "ADD", a |-> 1, b |-> 7, c |-> 0], [op |-> "UNLOCK", a |-> 0, b |-> 0, c |-> 0], [op |-> "JOIN", a |-> 2, b |-> 0, c |-> 0], [op |-> "READ", a |-> 1, b |-> 0, c |-> 0]>>,
      <<[op |-> "ONCE", a |-> 0, b |-> 0, c |-> 0], [op |-> "LOCK", a |-> 0, b |-> 0, c |-> 0], [op |-> "ADD", a |-> 1, b |-> 4, c |-> 0], [op |-> "UNLOCK", a |-> 0, b |-> 0, c |-> 0], [op |-> "YIELD", a |-> 0, b |-> 0, c |-> 0], [op |-> "EXIT", a |-> 3002, b |-> 0, c |-> 0]>> >>,
   barn |-> <<0, 0, 0, 0>>, keydt |-> <<1, 1, 0, 0>>],
  [threads |-> <<
      <<[op |-> "CREATE", a |-> 2, b |-> 4, c |-> 0], [op |-> "CREATE", a |-> 3, b |-> 1, c |-> 0], [op |-> "ONCE", a |-> 0, b |-> 0, c |-> 0], [op |-> "JOIN", a |-> 3, b |-> 0, c |-> 0], [op |-> "JOIN", a |-> 2, b |-> 0, c |-> 0], [op |-> "READ", a |-> 0, b |-> 0, c |-> 0]>>,
      <<[op |-> "ONCE", a |-> 0, b |-> 0, c |-> 0], [op |-> "SPIN", a |-> 5, b |-> 0, c |-> 0], [op |-> "ADD", a |-> 0, b |-> 2, c |-> 0], [op |-> "SPUN", a |-> 5, b |-> 0, c |-> 0], [op |-> "YIELD", a |-> 0, b |-> 0, c |-> 0], [op |-> "RET", a |-> 2002, b |-> 0, c |-> 0]>>,
      <<[op |-> "ONCE", a |-> 0, b |-> 0, c |-> 0], [op |-> "SPIN", a |-> 5, b |-> 0, c |-> 0], [op |-> "ADD", a |-> 0, b |-> 3, c |-> 0], [op |-> "SPUN", a |-> 5, b |-> 0, c |-> 0], [op |-> "SELF", a |-> 0, b |-> 0, c |-> 0], [op |-> "EXIT", a |-> 3003, b |-> 0, c |-> 0]>> >>,
   barn |-> <<0, 0, 0, 0>>, keydt |-> <<0, 0, 1, 1>>],
  [threads |-> <<
      <<[op |-> "CREATE", a |-> 2, b |-> 1, c |-> 0], [op |-> "CREATE", a |-> 3, b |-> 1, c |-> 0], [op |-> "CREATE", a |-> 4, b |-> 3, c |-> 0], [op |-> "LOCK", a |-> 0, b |-> 0, c |-> 0], [op |-> "ADD", a |-> 0, b |-> 7, c |-> 0], [op |-> "UNLOCK", a |-> 0, b |-> 0, c |-> 0], [op |-> "JOIN", a |-> 4, b |-> 0, c |-> 0], [op |-> "JOIN", a |-> 3, b |-> 0, c |-> 0], [op |-> "JOIN", a |-> 2, b |-> 0, c |-> 0], [op |-> "READ", a |-> 0, b |-> 0, c |-> 0]>>,
      <<[op |-> "LOCK", a |-> 0, b |-> 0, c |-> 0], [op |-> "ADD", a |-> 0, b |-> 2, c |-> 0], [op |-> "UNLOCK", a |-> 0, b |-> 0, c |-> 0], [op |-> "LOCK", a |-> 0, b |-> 0, c |-> 0], [op |-> "ADD", a |-> 0, b |-> 1, c |-> 0], [op |-> "UNLOCK", a |-> 0, b |-> 0, c |-> 0], [op |-> "SLEEP", a |-> 1, b |-> 0, c |-> 0]>>,
      <<[op |-> "LOCK", a |-> 0, b |-> 0, c |-> 0], [op |-> "ADD", a |-> 0, b |-> 1, c |-> 0], [op |-> "UNLOCK", a |-> 0, b |-> 0, c |-> 0]>>,
      <<[op |-> "TLOCK", a |-> 0, b |-> 0, c |-> 0], [op |-> "ADD", a |-> 0, b |-> 5, c |-> 0], [op |-> "UNLOCK", a |-> 0, b |-> 0, c |-> 0], [op |-> "TLOCK", a |-> 0, b |-> 0, c |-> 0], [op |-> "ADD", a |-> 0, b |-> 1, c |-> 0], [op |-> "UNLOCK", a |-> 0, b |-> 0, c |-> 0], [op |-> "RET", a |-> 2004, b |-> 0, c |-> 0]>> >>,
   barn |-> <<0, 0, 0, 0>>, keydt |-> <<0, 1, 1, 1>>] >>
=============================================================================
