---- MODULE WSQReplay ----
EXTENDS WSQueue, Json
VARIABLE hist
Mover == CHOOSE p \in Procs : pc'[p] # pc[p]
InitH == Init /\ hist = <<>>
NextH == /\ Next
         /\ hist' = Append(hist, [p |-> Mover, from |-> pc[Mover], to |-> pc'[Mover], v |-> loc'[Mover].v,
                                   top |-> top', base |-> base', ptr |-> [i \in Idx |-> ptr'[i]], lock |-> lock'])
SpecH == InitH /\ [][NextH]_<<vars, hist>>
Dump == Len(hist) = 40 => PrintT(<<"BEHAVIOUR", ToJson(hist)>>)
Bound == Len(hist) <= 40
\* behaviours that are replayed never fill the queue completely (the library aborts on overflow by design)
InFlight == Cardinality({p \in Procs : pc[p] \notin {"idle", "pop", "pop_dec", "pop_f", "pop_ldb", "pop_fast", "pop_lk", "pop_slow", "pop_reset2", "pop_ulf", "pop_uls",
                                                       "take", "take_lk", "take_inc", "take_f", "take_ldt", "take_ulf", "take_uls"}})
NoOverflow == Cardinality(inserted \ removed) + InFlight <= SIZE - 1
====
