/* mtbb.cc -- parallel_for (index based, with step, with grain size) and task_group on every instance
 * enumerated by BulkForkJoin.tla.  Output per case: "<idx> OK <i:count> ..." for every index with a non-zero
 * count in a window around the range, or "<idx> BAD <what>". */
#include <myth/myth.h>
#include <mtbb/parallel_for.h>
#include <mtbb/task_group.h>
#include <fcntl.h>
extern "C" {
#include "bulk_common.h"
}
#define OFF 32
#define WIN 128
static long cnt[WIN];
static void hit(long i){ if (i + OFF >= 0 && i + OFF < WIN) __sync_fetch_and_add(&cnt[i + OFF], 1); }
static void harness_init(void){
  myth_globalattr_t ga; char *s = getenv("BULK_NW");
  myth_globalattr_init(&ga); myth_globalattr_set_n_workers(&ga, s ? atoi(s) : 3); myth_globalattr_set_bind_workers(&ga, 0); myth_init_ex(&ga);
}
struct tgtask { long k; int nested; void operator()() const {
  if (nested){ mtbb::task_group g; long kk = k; g.run([kk]{ hit(kk); }); g.wait(); } else hit(k); } };
static void run_case(long idx, case_t *c){
  long i; memset(cnt, 0, sizeof cnt);
  if (!strcmp(c->kind, "pfor")){
    int step = (int)c->step, first = (int)c->first, last = (int)c->last;
    if (step == 1 && (idx % 2)) mtbb::parallel_for(first, last, [](int i){ hit(i); });
    else mtbb::parallel_for(first, last, step, [](int i){ hit(i); });
  } else if (!strcmp(c->kind, "pforg")){
    int step = (int)c->step, first = (int)c->first, last = (int)c->last, grain = (int)c->grain;
    mtbb::parallel_for(first, last, step, grain, [step](int a, int b){ for (int i = a; i < b; i += step) hit(i); });
  } else if (!strcmp(c->kind, "pfh")){
    /* huge range (up to 2^31 - 1 iterations): the body only records the chunk it is given; output "<idx> OK a:b a:b ..." */
    static long ca[4096], cb[4096]; static volatile long nc; nc = 0;
    int step = (int)c->step, first = (int)c->first, last = (int)c->last, grain = (int)c->grain;
    mtbb::parallel_for(first, last, step, grain, [](int a, int b){ long k = __sync_fetch_and_add(&nc, 1); if (k < 4096){ ca[k] = a; cb[k] = b; } });
    printf("%ld OK", idx); for (i = 0; i < nc && i < 4096; i++) printf(" %ld:%ld", ca[i], cb[i]); printf("\n");
    return;
  } else if (!strcmp(c->kind, "tg")){
    mtbb::task_group g; for (i = 0; i < c->last; i++){ tgtask t; t.k = i; t.nested = (int)c->at; g.run(t); } g.wait();
  } else { printf("%ld SKIP\n", idx); return; }
  printf("%ld OK", idx); for (i = 0; i < WIN; i++) if (cnt[i]) printf(" %ld:%ld", i - OFF, cnt[i]); printf("\n");
}
int main(int argc, char **argv){ if (argc < 2) return 2; return drive(argv[1]); }
