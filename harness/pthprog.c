/* pthprog.c: interpreter of the pthread program DSL of spec/PthreadAbs.tla, written against the plain POSIX
   API.  The same binary source is built three ways: against the system library, with link-time wrapping
   (libmyth-ld.a, @myth-ld.opts) and for preloading (libmyth-dl.so).  It prints the observable result in the
   shape of the specification's Result record.

   program file:  NT / barn[4] / keydt[4] / mutex kind[4] (0: pthread_mutex_init, 1: PTHREAD_MUTEX_INITIALIZER) / nfill
                  then per thread: nops, and nops lines "op a b c"                                                   */
#define _GNU_SOURCE
#include <pthread.h>
#include <stdio.h>
#include <stdlib.h>
#include <string.h>
#include <unistd.h>
#include <sched.h>

enum { CREATE = 1, JOIN, DETACH, RET, EXIT_, LOCK, TLOCK, UNLOCK, SPIN, SPUN, ADD, READ, WAITV, SIGV, BARRIER, ONCE,
       SETSPEC, GETSPEC, SELF, YIELD, SLEEP };
typedef struct { int op, a, b, c; } op_t;
#define MAXT 9
#define MAXOPS 64
#define NOBJ 4
static int NT; static int nops[MAXT]; static op_t ops[MAXT][MAXOPS];
static int barn[NOBJ], keydt[NOBJ], mkind[NOBJ];
static int nfill;      /* keys without destructor created before the keys under test (so that these get larger indices) */
static pthread_t handle[MAXT]; static pthread_t main_handle;
static pthread_mutex_t MD[NOBJ];
static pthread_mutex_t MS[NOBJ] = { PTHREAD_MUTEX_INITIALIZER, PTHREAD_MUTEX_INITIALIZER, PTHREAD_MUTEX_INITIALIZER, PTHREAD_MUTEX_INITIALIZER };
#define MX(m) (mkind[m] ? &MS[m] : &MD[m])
static pthread_cond_t CV[NOBJ]; static pthread_barrier_t BR[NOBJ]; static pthread_spinlock_t SP[NOBJ];
static pthread_once_t ON[NOBJ] = { PTHREAD_ONCE_INIT, PTHREAD_ONCE_INIT, PTHREAD_ONCE_INIT, PTHREAD_ONCE_INIT };
static pthread_key_t KEY[NOBJ];
static volatile long var[NOBJ];
static long outs[MAXT][MAXOPS]; static int nout[MAXT];
static volatile long dtsum, dtcalls, oncecnt, serials, finished;
static pthread_attr_t attrs[MAXT];

/* a destructor is ordinary code: it takes a lock that other ending threads want too and gives the processor away while
   holding it (so a thread may be suspended inside its destructor and continue elsewhere) */
static pthread_mutex_t DM = PTHREAD_MUTEX_INITIALIZER;
static void dtor(void *v){
  if ((long)v & 1){ sched_yield(); __sync_fetch_and_add(&dtsum, (long)v); __sync_fetch_and_add(&dtcalls, 1); return; }
  /* (the totals are updated atomically on both paths: the lock is there to make destructors block, not to protect them) */
  pthread_mutex_lock(&DM); __sync_fetch_and_add(&dtsum, (long)v); sched_yield(); __sync_fetch_and_add(&dtcalls, 1); pthread_mutex_unlock(&DM); }
static void once_fn(void){ __sync_fetch_and_add(&oncecnt, 1); }
static __attribute__((noinline)) void nested_exit(long v, int depth){
  volatile char pad[48]; pad[0] = (char)depth;
  if (depth > 0){ nested_exit(v, depth - 1); pad[1] = pad[0]; return; }
  __sync_fetch_and_add(&finished, 1);
  pthread_exit((void *)v);
}
static void *thread_fn(void *arg);
static long run(int t){
  int i;
  for (i = 0; i < nops[t]; i++){
    op_t *o = &ops[t][i];
    switch (o->op){
    case CREATE: {
      pthread_attr_t *ap = 0; int rc;
      if (o->b){ ap = &attrs[o->a]; pthread_attr_init(ap);
        if (o->b == 2) pthread_attr_setdetachstate(ap, PTHREAD_CREATE_DETACHED);
        if (o->b == 3) pthread_attr_setstacksize(ap, 512 * 1024);
        if (o->b == 4){ void *stk = 0; if (posix_memalign(&stk, 4096, 256 * 1024)) _exit(2); pthread_attr_setstack(ap, stk, 256 * 1024); } }   /* caller-provided stack (lowest address, size) */
      rc = pthread_create(&handle[o->a], ap, thread_fn, (void *)(long)o->a);
      if (rc){ printf("ERROR pthread_create rc=%d\n", rc); fflush(stdout); _exit(3); }
      if (ap) pthread_attr_destroy(ap);
      break; }
    case JOIN: { void *r = 0; int rc = pthread_join(handle[o->a], &r);
      if (rc){ printf("ERROR pthread_join rc=%d\n", rc); fflush(stdout); _exit(3); }
      outs[t][nout[t]++] = (long)r; break; }
    case DETACH: { int rc = pthread_detach(o->a == t ? pthread_self() : handle[o->a]);
      if (rc){ printf("ERROR pthread_detach rc=%d\n", rc); fflush(stdout); _exit(3); } break; }
    case RET: return (long)o->a;
    case EXIT_: nested_exit((long)o->a, 2); break;
    case LOCK: pthread_mutex_lock(MX(o->a)); break;
    case TLOCK: while (pthread_mutex_trylock(MX(o->a)) != 0) sched_yield(); break;
    case UNLOCK: pthread_mutex_unlock(MX(o->a)); break;
    case SPIN: pthread_spin_lock(&SP[o->a - NOBJ]); break;
    case SPUN: pthread_spin_unlock(&SP[o->a - NOBJ]); break;
    case ADD: var[o->a] += o->b; break;
    case READ: outs[t][nout[t]++] = var[o->a]; break;
    case WAITV: pthread_mutex_lock(MX(o->a)); while (var[o->b] != o->c) pthread_cond_wait(&CV[o->b], MX(o->a)); pthread_mutex_unlock(MX(o->a)); break;
    case SIGV: pthread_mutex_lock(MX(o->a)); var[o->b] = o->c; pthread_cond_broadcast(&CV[o->b]); pthread_mutex_unlock(MX(o->a)); break;
    case BARRIER: { int rc = pthread_barrier_wait(&BR[o->a]);
      if (rc == PTHREAD_BARRIER_SERIAL_THREAD) __sync_fetch_and_add(&serials, 1);
      else if (rc != 0){ printf("ERROR pthread_barrier_wait rc=%d\n", rc); fflush(stdout); _exit(3); }
      break; }
    case ONCE: pthread_once(&ON[o->a], once_fn); break;
    case SETSPEC: pthread_setspecific(KEY[o->a], (void *)(long)o->b); break;
    case GETSPEC: outs[t][nout[t]++] = (long)pthread_getspecific(KEY[o->a]); break;
    case SELF: outs[t][nout[t]++] = (pthread_equal(pthread_self(), pthread_self()) != 0) && (t == 1 || !pthread_equal(pthread_self(), main_handle)); break;
    case YIELD: sched_yield(); break;
    case SLEEP: usleep((useconds_t)o->a); break;
    default: printf("ERROR unknown op %d\n", o->op); fflush(stdout); _exit(2);
    }
  }
  return 1000 + t;
}
static void *thread_fn(void *arg){
  int t = (int)(long)arg; long v = run(t);
  __sync_fetch_and_add(&finished, 1);
  return (void *)v;
}

int main(int argc, char **argv){
  FILE *fp; int i, t, k;
  if (argc < 2 || !(fp = fopen(argv[1], "r"))){ fprintf(stderr, "usage: pthprog prog\n"); return 2; }
  if (fscanf(fp, "%d", &NT) != 1 || NT >= MAXT) return 2;
  for (i = 0; i < NOBJ; i++) if (fscanf(fp, "%d", &barn[i]) != 1) return 2;
  for (i = 0; i < NOBJ; i++) if (fscanf(fp, "%d", &keydt[i]) != 1) return 2;
  for (i = 0; i < NOBJ; i++) if (fscanf(fp, "%d", &mkind[i]) != 1) return 2;
  if (fscanf(fp, "%d", &nfill) != 1) return 2;
  for (t = 1; t <= NT; t++){
    if (fscanf(fp, "%d", &nops[t]) != 1 || nops[t] >= MAXOPS) return 2;
    for (i = 0; i < nops[t]; i++) if (fscanf(fp, "%d %d %d %d", &ops[t][i].op, &ops[t][i].a, &ops[t][i].b, &ops[t][i].c) != 4) return 2;
  }
  fclose(fp);
  main_handle = pthread_self();
  for (i = 0; i < nfill; i++){ pthread_key_t k_; pthread_key_create(&k_, 0); }
  for (i = 0; i < NOBJ; i++){
    pthread_mutex_init(&MD[i], 0); pthread_cond_init(&CV[i], 0); pthread_spin_init(&SP[i], PTHREAD_PROCESS_PRIVATE);
    if (barn[i] > 0) pthread_barrier_init(&BR[i], 0, (unsigned)barn[i]);
    pthread_key_create(&KEY[i], keydt[i] ? dtor : 0);
  }
  run(1);
  /* detached threads: wait until every thread function has ended */
  for (k = 0; finished < NT - 1 && k < 20000; k++) usleep(1000);
  if (finished < NT - 1){ printf("ERROR a thread never finished\n"); fflush(stdout); _exit(5); }
  printf("{\"vars\":[%ld,%ld,%ld,%ld],\"outs\":[", var[0], var[1], var[2], var[3]);
  for (t = 1; t <= NT; t++){ printf("%s[", t > 1 ? "," : ""); for (i = 0; i < nout[t]; i++) printf("%s%ld", i ? "," : "", outs[t][i]); printf("]"); }
  printf("],\"glob\":{\"dtsum\":%ld,\"dtcalls\":%ld,\"oncecnt\":%ld,\"serials\":%ld}}\n", dtsum, dtcalls, oncecnt, serials);
  fflush(stdout);
  _exit(0);
}
