#define _GNU_SOURCE
#include <pthread.h>
#include <semaphore.h>
#include <stdio.h>
#include <stdlib.h>
#include <string.h>
#define MYTH_VERIF 1
#define MYTH_VERIF_LEVEL_F 1
#include "myth/myth.h"
#include "myth_config.h"
#include "myth_wsqueue.h"
#include "myth_wsqueue_func.h"

#define NP 3
static myth_thread_queue Q;
static sem_t grant[NP], report;
static __thread int me = -1;
static volatile const char *parked_at[NP];   /* label or "idle" */
static volatile int cmd_op[NP]; static volatile long cmd_val[NP];
static volatile long last_ret[NP];
/* the library-side entry points of the verification runtime (only the level-F ones matter here) */
void myth_verif_worker(int r){ (void)r; } void myth_verif_regq(int r, const void *q){ (void)r; (void)q; } int myth_verif_qrank(const void *q){ (void)q; return 0; }
void myth_verif_point(int id){ (void)id; } void myth_verif_spin(int id){ (void)id; } void myth_verif_idle(void){ }
void myth_verif_ev(const char *n, int k, ...){ (void)n; (void)k; } void myth_verif_evz(const char *n, int k, ...){ (void)n; (void)k; } void myth_verif_evzk(const char *n, int z, int k, ...){ (void)n; (void)z; (void)k; }
void myth_verif_evlock(const char *n, const void *l){ (void)n; (void)l; }
long myth_verif_id(int ns, const void *p){ (void)ns; return (long)p; } long myth_verif_id_alias(int ns, const void *k, const void *a){ (void)ns; (void)a; return (long)k; }
long myth_verif_addr(const void *p){ return (long)p; } int myth_verif_choose(int lo, int hi){ (void)lo; (void)hi; return -1; }
int myth_verif_clock(struct timespec *ts){ (void)ts; return 0; } int myth_verif_active(void){ return 0; }
void uvrt_point(const char *label);
void uvrt_spin(void);
void myth_verif_fpoint(const char *label){ uvrt_point(label); }
void myth_verif_fspin(const char *label){ (void)label; uvrt_spin(); }
void uvrt_point(const char *label){ if (me < 0) return; parked_at[me] = label; sem_post(&report); sem_wait(&grant[me]); }
void uvrt_spin(void){ if (me < 0) return; parked_at[me] = "spin"; sem_post(&report); sem_wait(&grant[me]); }
static void *proc(void *a){ me = (int)(long)a;
  for (;;){ parked_at[me] = "idle"; sem_post(&report); sem_wait(&grant[me]);
    int op = cmd_op[me];
    if (op == 0) myth_queue_push(&Q, (myth_thread_t)cmd_val[me]);
    else if (op == 1) last_ret[me] = (long)myth_queue_pop(&Q);
    else if (op == 2) last_ret[me] = (long)myth_queue_take(&Q);
    else if (op == 3) myth_queue_put(&Q, (myth_thread_t)cmd_val[me]);
    else if (op == 4) last_ret[me] = (long)myth_queue_trypass(&Q, (myth_thread_t)cmd_val[me]);
    else return 0; } }
static int step(int p){ sem_post(&grant[p]); sem_wait(&report); return 0; }
static int label_eq(const char *code, const char *spec){
  if (!strcmp(code, spec)) return 1;
  if (!strcmp(code, "uls")) { size_t n = strlen(spec); return n > 4 && !strcmp(spec + n - 4, "_uls"); }
  return 0; }
int main(int argc, char **argv){
  FILE *fp = fopen(argv[1], "r"); char line[512]; int nb = 0, nsteps = 0, fail = 0; pthread_t th[NP]; int i;
  sem_init(&report, 0, 0);
  for (i = 0; i < NP; i++){ sem_init(&grant[i], 0, 0); pthread_create(&th[i], 0, proc, (void*)(long)i); sem_wait(&report); }
  while (fgets(line, sizeof line, fp)){
    int n, ib = 1; if (sscanf(line, "BEGIN %d %d", &n, &ib) < 1) continue;
    /* reset queue: all procs must be idle */
    myth_queue_init(&Q); Q.base = Q.top = ib;
    int k, bad = 0;
    for (k = 0; k < n; k++){
      int p, top, base, p0, p1, p2, p3, lk; long v; char from[32], to[32];
      fgets(line, sizeof line, fp);
      sscanf(line, "%d %31s %31s %ld %d %d %d %d %d %d %d", &p, from, to, &v, &top, &base, &p0, &p1, &p2, &p3, &lk);
      if (bad) continue;
      if (!label_eq((const char*)parked_at[p], from)){ printf("DIVERGE beh %d step %d: proc %d code at '%s' spec at '%s'\n", nb, k, p, parked_at[p], from); bad = 1; continue; }
      if (!strcmp(from, "idle")){ cmd_op[p] = !strcmp(to,"push") ? 0 : !strcmp(to,"pop") ? 1 : !strcmp(to,"take") ? 2 : !strcmp(to,"put") ? 3 : 4; cmd_val[p] = v; }
      step(p);
      /* if the code is spinning on the lock, the spec step (Acquire) is not enabled: should not happen in a valid behaviour */
      if (!strcmp((const char*)parked_at[p], "spin")){ printf("DIVERGE beh %d step %d: proc %d spins, spec moved to %s\n", nb, k, p, to); bad = 1; continue; }
      long q0 = (long)Q.ptr[0], q1 = (long)Q.ptr[1], q2 = (long)Q.ptr[2], q3 = (long)Q.ptr[3];
      if (!label_eq((const char*)parked_at[p], to) || Q.top != top || Q.base != base || Q.lock.locked != lk || q0 != p0 || q1 != p1 || q2 != p2 || q3 != p3){
        printf("MISMATCH beh %d step %d proc %d: code at '%s' top=%d base=%d lock=%d ptr=%ld,%ld,%ld,%ld ; spec to '%s' top=%d base=%d lock=%d ptr=%d,%d,%d,%d\n",
               nb, k, p, parked_at[p], Q.top, Q.base, Q.lock.locked, q0,q1,q2,q3, to, top, base, lk, p0,p1,p2,p3); bad = 1; }
      nsteps++;
    }
    /* drain: let every non-idle proc finish its op */
    for (i = 0; i < NP; i++){ int guard = 0; while (strcmp((const char*)parked_at[i], "idle") && guard++ < 1000) { int j; step(i); if (!strcmp((const char*)parked_at[i], "spin")) for (j = 0; j < NP; j++) if (j != i && strcmp((const char*)parked_at[j], "idle")) step(j); } }
    fail += bad; nb++;
    free(Q.ptr);
  }
  printf("behaviours=%d steps=%d failed=%d\n", nb, nsteps, fail);
  return fail != 0;
}
void *real_malloc(size_t s){ return malloc(s); }
void real_free(void *p){ free(p); }
void *real_realloc(void *p, size_t s){ return realloc(p, s); }
