/* ctx_unit.c: run the real myth_make_context_empty / myth_make_context_voidcall on stacks whose top address
   has every residue modulo 16 (and 64), and print what the abstract machine needs to know about the initial
   stack pointer: its residue modulo 16, whether it lies inside the stack, and (voidcall) whether the entry
   address is stored exactly where the stack pointer points. */
#include <stdio.h>
#include <stdint.h>
#include <stdlib.h>
#include <string.h>
#include "myth_config.h"
#include "myth_context.h"
#include "myth_context_func.h"
static void entry(void){ }
int main(void){
  static char area[1 << 16] __attribute__((aligned(64)));
  int r;
  for (r = 0; r < 64; r++){
    char *top = area + sizeof(area) - 256 + r;       /* what the library passes as the stack's upper end */
    myth_context c1, c2;
    memset(&c1, 0, sizeof(c1)); memset(&c2, 0, sizeof(c2));
    memset(area, 0x5a, sizeof(area));
    myth_make_context_empty(&c1, top, 4096);
    myth_make_context_voidcall(&c2, entry, top, 4096);
    printf("r=%d cf_mod16=%d cf_below=%ld pf_mod16=%d pf_below=%ld pf_entry_at_sp=%d\n", r,
           (int)((uint64_t)c1.rsp & 15), (long)((char*)top - (char*)c1.rsp),
           (int)((uint64_t)c2.rsp & 15), (long)((char*)top - (char*)c2.rsp),
           (int)(*(void**)c2.rsp == (void*)entry));
  }
  return 0;
}
