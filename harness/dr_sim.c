/* dr_sim.c -- single-OS-thread simulator that replays executions enumerated by DagRec.tla through the real
 * DAG Recorder (public dr_*__ entry points with explicit worker ids, virtual clock), once per contraction
 * setting, and prints the totals the recorder reports (stat file) plus structural checks of the dumped DAG.
 *
 * usage: dr_sim <behaviours> <setting> <workdir>
 *   behaviours: "BEGIN n" then n lines "op t w clk x"
 *   output, per behaviour:  "<idx> work=.. tinf=.. create=.. wait=.. end=.. nodes=.. e_end=.. e_create=.. e_create_cont=..
 *                            e_wait_cont=.. e_other_cont=.. matnodes=.. roundtrip=ok|BAD.. wf=ok|BAD.."
 */
#define _GNU_SOURCE
#define DAG_RECORDER 2
#include "dr_dump.c"
#include <unistd.h>

static unsigned long long vclock = 1;
static unsigned long long sim_clock(void){ return vclock; }
#define MAXT 64

static long stat_val(const char *buf, const char *key){
  const char *p = strstr(buf, key); if (!p) return -1;
  p = strchr(p, '='); if (!p) return -1;
  return atol(p + 1);
}
/* sum of an edge matrix following the line "<title> edges:" ((nw+1) rows of (nw+1) numbers) */
static long edge_sum(const char *buf, const char *title, int nw){
  const char *p = strstr(buf, title); long s = 0; int i;
  if (!p) return -1;
  p = strchr(p, '\n'); if (!p) return -1;
  for (i = 0; i < (nw + 1) * (nw + 1); i++){ char *e; long v = strtol(p, &e, 10); if (e == p) break; s += v; p = e; }
  return s;
}
static int same_dag(dr_pi_dag *A, dr_pi_dag *B, char *why){
  long i;
  if (A->n != B->n || A->m != B->m || A->num_workers != B->num_workers || A->start_clock != B->start_clock){ sprintf(why, "header differs (n %ld/%ld m %ld/%ld)", A->n, B->n, A->m, B->m); return 0; }
  for (i = 0; i < A->n; i++){
    dr_pi_dag_node *a = &A->T[i], *b = &B->T[i];
    if (a->info.kind != b->info.kind || a->info.t_1 != b->info.t_1 || a->info.t_inf != b->info.t_inf || a->info.start.t != b->info.start.t
        || a->info.end.t != b->info.end.t || a->info.worker != b->info.worker || a->edges_begin != b->edges_begin || a->edges_end != b->edges_end
        || a->info.start.pos.file_idx != b->info.start.pos.file_idx || a->info.start.pos.line != b->info.start.pos.line
        || a->info.end.pos.file_idx != b->info.end.pos.file_idx || a->info.end.pos.line != b->info.end.pos.line
        || a->subgraphs_begin_offset != b->subgraphs_begin_offset || a->subgraphs_end_offset != b->subgraphs_end_offset
        || memcmp(a->info.logical_node_counts, b->info.logical_node_counts, sizeof a->info.logical_node_counts)
        || memcmp(a->info.logical_edge_counts, b->info.logical_edge_counts, sizeof a->info.logical_edge_counts)){ sprintf(why, "node %ld differs", i); return 0; }
  }
  for (i = 0; i < A->m; i++) if (A->E[i].kind != B->E[i].kind || A->E[i].u != B->E[i].u || A->E[i].v != B->E[i].v){ sprintf(why, "edge %ld differs", i); return 0; }
  if (A->S->n != B->S->n){ sprintf(why, "string table differs"); return 0; }
  return 1;
}
/* every source position of a dumped / converted DAG must name, through the string table, the file it was recorded with */
static const char *FN[8] = { "sim_a.c", "sim_b.c", "sim_c.c", "sim_d.c", "sim_e.c", "sim_f.c", "sim_g.c", "sim_h.c" };
static int strings_ok(dr_pi_dag *G, char *why){
  long i; int e;
  for (i = 0; i < G->n; i++) for (e = 0; e < 2; e++){
    code_pos *p = e ? &G->T[i].info.end.pos : &G->T[i].info.start.pos;
    if (p->file_idx < 0 || p->file_idx >= G->S->n){ sprintf(why, "BAD:node_%ld_file_index_%ld_outside_table_of_%ld", i, p->file_idx, G->S->n); return 0; }
    if (p->line < 0 || p->line / 100 > 7 || strcmp(G->S->C + G->S->I[p->file_idx], FN[p->line / 100])){
      sprintf(why, "BAD:node_%ld_line_%ld_names_%.20s", i, p->line, G->S->C + G->S->I[p->file_idx]); return 0; }
  }
  return 1;
}
/* edge totals the way the stat generator computes them: logical counts of contracted nodes + materialised edges */
static void edge_totals(dr_pi_dag *G, long out[dr_dag_edge_kind_max]){
  long i; int k;
  for (k = 0; k < dr_dag_edge_kind_max; k++) out[k] = 0;
  for (i = 0; i < G->n; i++){ dr_pi_dag_node *t = &G->T[i];
    if (t->info.kind >= dr_dag_node_kind_section && t->subgraphs_begin_offset == t->subgraphs_end_offset)
      for (k = 0; k < dr_dag_edge_kind_max; k++) out[k] += t->info.logical_edge_counts[k]; }
  for (i = 0; i < G->m; i++) out[G->E[i].kind]++;
}
/* chronological replay with the library's own traverser: every leaf must start and end exactly once and
   nothing may be left running or ready */
typedef struct { void (*process_event)(chronological_traverser *, dr_event); dr_pi_dag *G; long *starts, *ends; long running, ready, bad; } counting_ct;
static void count_event(chronological_traverser *ct_, dr_event ev){
  counting_ct *ct = (counting_ct *)ct_; long i = ev.u - ct->G->T;
  if (i < 0 || i >= ct->G->n){ ct->bad++; return; }
  switch (ev.kind){
  case dr_event_kind_ready: ct->ready++; break;
  case dr_event_kind_start: ct->starts[i]++; ct->running++; break;
  case dr_event_kind_last_start: ct->ready--; break;
  case dr_event_kind_end: ct->ends[i]++; ct->running--; break;
  default: ct->bad++; }
}
static int chrono_ok(dr_pi_dag *G, char *why){
  counting_ct ct; long i; int ok = 1;
  ct.process_event = count_event; ct.G = G; ct.starts = calloc(G->n + 1, sizeof(long)); ct.ends = calloc(G->n + 1, sizeof(long)); ct.running = ct.ready = ct.bad = 0;
  dr_pi_dag_chronological_traverse(G, (chronological_traverser *)&ct);
  for (i = 0; i < G->n && ok; i++){ dr_pi_dag_node *t = &G->T[i];
    int leaf = t->info.kind < dr_dag_node_kind_section || t->subgraphs_begin_offset == t->subgraphs_end_offset;
    if (leaf && (ct.starts[i] != 1 || ct.ends[i] != 1)){ sprintf(why, "BAD:leaf_%ld_started_%ld_ended_%ld", i, ct.starts[i], ct.ends[i]); ok = 0; }
    if (!leaf && (ct.starts[i] || ct.ends[i])){ sprintf(why, "BAD:inner_node_%ld_has_events", i); ok = 0; } }
  if (ok && (ct.running || ct.ready || ct.bad)){ sprintf(why, "BAD:left_running_%ld_ready_%ld", ct.running, ct.ready); ok = 0; }
  free(ct.starts); free(ct.ends);
  return ok;
}
/* export of the dumped-and-re-read DAG for the well-formedness / chronological replay check done by TLC */
static void export_json(dr_pi_dag *G, FILE *fp, long idx){
  long i;
  fprintf(fp, "{\"idx\":%ld,\"n\":%ld,\"m\":%ld,\"nodes\":[", idx, G->n, G->m);
  for (i = 0; i < G->n; i++){ dr_pi_dag_node *t = &G->T[i];
    fprintf(fp, "%s{\"k\":%d,\"eb\":%ld,\"ee\":%ld,\"a\":%ld,\"b\":%ld,\"s\":%lld,\"e\":%lld}", i ? "," : "", (int)t->info.kind, t->edges_begin, t->edges_end,
            t->info.kind == dr_dag_node_kind_create_task ? t->child_offset : t->subgraphs_begin_offset,
            t->info.kind == dr_dag_node_kind_create_task ? 0 : t->subgraphs_end_offset, (long long)t->info.start.t, (long long)t->info.end.t); }
  fprintf(fp, "],\"edges\":[");
  for (i = 0; i < G->m; i++) fprintf(fp, "%s{\"k\":%d,\"u\":%ld,\"v\":%ld}", i ? "," : "", (int)G->E[i].kind, G->E[i].u, G->E[i].v);
  fprintf(fp, "]}\n");
}

int main(int argc, char **argv){
  FILE *fp; char line[256]; long idx = 0; dr_options opts; char prefix[512], path[600]; const char *setting; FILE *jf;
  if (argc < 4) return 2;
  setting = argv[2];
  fp = fopen(argv[1], "r"); if (!fp) return 2;
  dr_verif_clock = sim_clock;
  dr_options_default(&opts);
  snprintf(prefix, sizeof prefix, "%s/dr_%s", argv[3], setting);
  opts.dag_file_prefix = prefix; opts.dag_file_yes = 1; opts.stat_file_yes = 1; opts.gpl_file_yes = 0; opts.worker_specific_state_array = 1;
  opts.chk_level = 0; opts.verbose_level = 0;
  if (!strcmp(setting, "default")) { }
  else if (!strcmp(setting, "nocollapse")) { opts.collapse_max = 0; }
  else if (!strcmp(setting, "collapse3")) { opts.collapse_max = 3; }
  else if (!strcmp(setting, "uncollapse3")) { opts.collapse_max = 0; opts.uncollapse_min = 3; }
  else if (!strcmp(setting, "uncollapseinf")) { opts.uncollapse_min = (1L << 60); }
  else if (!strcmp(setting, "count2")) { opts.collapse_max_count = 2; }
  else if (!strcmp(setting, "count5")) { opts.collapse_max_count = 5; }
  else if (!strcmp(setting, "countinf")) { opts.collapse_max_count = 1000000; }
  else if (!strcmp(setting, "target1")) { opts.collapse_max = 0; opts.node_count_target = 1; opts.prune_threshold = 0; }
  else if (!strcmp(setting, "target4")) { opts.collapse_max = 0; opts.node_count_target = 4; opts.prune_threshold = 2; }
  else { fprintf(stderr, "unknown setting %s\n", setting); return 2; }
  snprintf(path, sizeof path, "%s.json", prefix); jf = fopen(path, "w");
  while (fgets(line, sizeof line, fp)){
    int n, k; dr_dag_node *task[MAXT] = {0}, *cnode[MAXT] = {0}; int nw = 4;
    if (sscanf(line, "BEGIN %d %d", &n, &nw) < 1) continue;
    for (k = 0; k < n; k++){
      char op[32]; int t, w; long c, x;
      if (!fgets(line, sizeof line, fp)) return 2;
      sscanf(line, "%31s %d %d %ld %ld", op, &t, &w, &c, &x);
      vclock = (unsigned long long)c;
      /* source positions: K distinct file names in this execution (K = 1..7, by execution index); the line number
         encodes the file (100 * file + operation), so that a position read back can be checked on its own */
#define POS(o_) FN[FI(t, o_)], (100 * FI(t, o_) + (o_))
#define FI(t_, o_) ((int)(((t_) * 3 + (o_)) % (1 + idx % 7)))
      if (!strcmp(op, "start")) dr_start__(&opts, POS(1), w, nw);
      else if (!strcmp(op, "create")) { dr_dag_node *cn = 0; task[t] = dr_enter_create_task__(&cn, POS(2), w); cnode[x] = cn; }
      else if (!strcmp(op, "start_task")) dr_start_task__(cnode[t], POS(3), w);
      else if (!strcmp(op, "ret_create")) dr_return_from_create_task__(task[t], POS(4), w);
      else if (!strcmp(op, "wait")) task[t] = dr_enter_wait_tasks__(POS(5), w);
      else if (!strcmp(op, "ret_wait")) dr_return_from_wait_tasks__(task[t], POS(6), w);
      else if (!strcmp(op, "other")) task[t] = dr_enter_other__(POS(7), w);
      else if (!strcmp(op, "ret_other")) dr_return_from_other__(task[t], POS(8), w);
      else if (!strcmp(op, "end")) { if (t == 1) dr_stop__(POS(9), w); else dr_end_task__(POS(9), w); }
    }
    /* dump, read the stat file back, compare dump / re-read */
    { char sbuf[65536]; FILE *sf; size_t len; dr_pi_dag G[1]; dr_pi_dag *R; char why[128] = "ok", chr[128] = "ok", shr[160] = "ok", str[160] = "ok";
      dr_dump_();
      snprintf(path, sizeof path, "%s.stat", prefix); sf = fopen(path, "r"); len = sf ? fread(sbuf, 1, sizeof sbuf - 1, sf) : 0; sbuf[len] = 0; if (sf) fclose(sf);
      dr_make_pi_dag(G, GS.root, GS.start_clock);
      snprintf(path, sizeof path, "%s.dag", prefix); R = dr_read_dag(path);
      if (!R) strcpy(why, "BAD:cannot-read"); else if (!same_dag(G, R, why)) { char t2[128]; snprintf(t2, sizeof t2, "BAD:%s", why); strcpy(why, t2); for (char *q = why; *q; q++) if (*q == ' ') *q = '_'; }
      if (R && jf) export_json(R, jf, 2 * idx);
      if (R){
        dr_pi_dag S_[1]; long ea[dr_dag_edge_kind_max], eb[dr_dag_edge_kind_max]; int k_;
        chrono_ok(R, chr);
        strings_ok(R, str);
        /* conversion with shrinking (what dag2any --shrink does) must preserve the totals */
        dr_copy_pi_dag(S_, R);
        edge_totals(R, ea); edge_totals(S_, eb);
        if (S_->T[0].info.t_1 != R->T[0].info.t_1 || S_->T[0].info.t_inf != R->T[0].info.t_inf
            || memcmp(S_->T[0].info.logical_node_counts, R->T[0].info.logical_node_counts, sizeof R->T[0].info.logical_node_counts)) strcpy(shr, "BAD:root_totals_changed");
        for (k_ = 0; k_ < dr_dag_edge_kind_max; k_++) if (ea[k_] != eb[k_]) sprintf(shr, "BAD:edges_of_kind_%d_%ld_became_%ld", k_, ea[k_], eb[k_]);
        if (!strcmp(shr, "ok")){ char c2[128] = "ok"; if (!chrono_ok(S_, c2)) snprintf(shr, sizeof shr, "BAD:shrunk_%s", c2); }
        if (!strcmp(str, "ok")){ char c2[128] = "ok"; if (!strings_ok(S_, c2)) snprintf(str, sizeof str, "BAD:shrunk_%s", c2 + 4); }
        if (jf) export_json(S_, jf, 2 * idx + 1);
        /* the same conversion under other contraction settings than those of the recording (conversion time):
           contract everything by span, by node count, nothing */
        { dr_options saved = GS.opts; int cs;
          for (cs = 0; cs < 3 && !strcmp(shr, "ok"); cs++){
            dr_pi_dag S2[1]; long ec[dr_dag_edge_kind_max]; char c2[128] = "ok";
            GS.opts = saved;
            if (cs == 0){ GS.opts.collapse_max = (1L << 60); GS.opts.uncollapse_min = (1L << 61); GS.opts.collapse_max_count = 0; }
            else if (cs == 1){ GS.opts.collapse_max = 0; GS.opts.uncollapse_min = 0; GS.opts.collapse_max_count = 2; }
            else { GS.opts.collapse_max = 0; GS.opts.uncollapse_min = 0; GS.opts.collapse_max_count = 0; }
            dr_copy_pi_dag(S2, R);
            edge_totals(S2, ec);
            if (S2->T[0].info.t_1 != R->T[0].info.t_1 || S2->T[0].info.t_inf != R->T[0].info.t_inf) sprintf(shr, "BAD:conversion_setting_%d_root_totals_changed", cs);
            for (k_ = 0; k_ < dr_dag_edge_kind_max; k_++) if (ea[k_] != ec[k_]) sprintf(shr, "BAD:conversion_setting_%d_edges_of_kind_%d_%ld_became_%ld", cs, k_, ea[k_], ec[k_]);
            if (!strcmp(shr, "ok") && !chrono_ok(S2, c2)) snprintf(shr, sizeof shr, "BAD:conversion_setting_%d_%s", cs, c2);
            dr_destroy_pi_dag(S2);
          }
          GS.opts = saved; }
      }
      printf("%ld work=%ld tinf=%ld create=%ld wait=%ld end=%ld nodes=%ld matnodes=%ld e_end=%ld e_create=%ld e_create_cont=%ld e_wait_cont=%ld e_other_cont=%ld roundtrip=%s chrono=%s shrink=%s strings=%s\n", idx,
             stat_val(sbuf, "work (T1)"), stat_val(sbuf, "critical_path (T_inf)"), stat_val(sbuf, "create_task "), stat_val(sbuf, "wait_tasks "), stat_val(sbuf, "end_task "),
             stat_val(sbuf, "dag nodes"), stat_val(sbuf, "materialized nodes"),
             edge_sum(sbuf, "end-parent edges:", nw), edge_sum(sbuf, "create-child edges:", nw), edge_sum(sbuf, "create-cont edges:", nw),
             edge_sum(sbuf, "wait-cont edges:", nw), edge_sum(sbuf, "other-cont edges:", nw), why, chr, shr, str);
      fflush(stdout);
      dr_destroy_pi_dag(G);
    }
    idx++;
  }
  if (jf) fclose(jf);
  return 0;
}
