/* envparse_unit.c -- runs the real MYTH_CPU_LIST parser and the numeric-environment readers of the
 * library on every string of an input file and prints the outcome, one line per string:
 *     <index> cpu <n> <list...> num <stksize> <guardsize> <nworkers-as-parsed>
 * or  <index> CRASH <signal>     (the string made the library abort / crash)
 * Input: one string per line, bytes written as two hex digits each (empty line = empty string).
 */
#define _GNU_SOURCE
#include <stdio.h>
#include <stdlib.h>
#include <string.h>
#include <signal.h>
#include <unistd.h>
#include <sys/wait.h>
#include "myth_bind_worker.c"       /* static myth_parse_cpu_list and friends */
#include "myth_init_func.h"         /* myth_globalattr_default_* readers */

#include <fcntl.h>
pthread_t real_pthread_self(void){ return pthread_self(); }
int real_pthread_setaffinity_np(pthread_t t, size_t n, const cpu_set_t *c){ (void)t; (void)n; (void)c; return 0; }
void *real_malloc(size_t s){ return malloc(s); }
void real_free(void *p){ free(p); }
void *real_realloc(void *p, size_t s){ return realloc(p, s); }
myth_globalattr_t g_attr;
volatile int g_myth_init_state;
int myth_init_ex_body(const myth_globalattr_t * attr){ (void)attr; return 1; }

static int unhex(const char *h, char *out){ int n = 0; while (h[0] && h[1] && h[0] != '\n'){ unsigned v; sscanf(h, "%2x", &v); out[n++] = (char)v; h += 2; } out[n] = 0; return n; }

int main(int argc, char **argv){
  FILE *fp = fopen(argv[1], "r"); char line[4096], s[2048]; long idx = 0; static int list[N_MAX_CPUS];
  if (!fp) return 2;
  /* all cases run in a child; when it dies the parent reports the crash and restarts after that case */
  long start = 0;
  for (;;){
    int pfd[2]; pid_t pid; int st; long done = -1;
    if (pipe(pfd)) return 2;
    fflush(stdout);
    pid = fork();
    if (pid == 0){
      FILE *progress = fdopen(pfd[1], "w"); close(pfd[0]);
      int devnull = open("/dev/null", O_WRONLY); dup2(devnull, 2);
      idx = 0; rewind(fp);
      while (fgets(line, sizeof line, fp)){
        if (idx >= start){
          int i, n;
          unhex(line, s);
          fprintf(progress, "%ld\n", idx); fflush(progress);
          setenv("MYTH_CPU_LIST", s, 1);
          n = myth_parse_cpu_list("MYTH_CPU_LIST", list, N_MAX_CPUS);
          printf("%ld cpu %d", idx, n);
          for (i = 0; i < n && i < 40; i++) printf(" %d", list[i]);
          setenv("MYTH_DEF_STKSIZE", s, 1); setenv("MYTH_DEF_GUARDSIZE", s, 1); setenv("MYTH_NUM_WORKERS", s, 1);
          { size_t a = myth_globalattr_default_stacksize(), b = myth_globalattr_default_guardsize();
            int nwenv = atoi(s);
            printf(" num %zu %zu %d\n", a, b, nwenv > 0 ? nwenv : 0); }
          fflush(stdout);
        }
        idx++;
      }
      fprintf(progress, "-2\n"); fflush(progress);
      _exit(0);
    }
    close(pfd[1]);
    { FILE *pr = fdopen(pfd[0], "r"); long v; while (fscanf(pr, "%ld", &v) == 1) done = v; fclose(pr); }
    waitpid(pid, &st, 0);
    if (done == -2) break;
    printf("%ld CRASH %d\n", done, WIFSIGNALED(st) ? WTERMSIG(st) : -WEXITSTATUS(st));
    start = done + 1;
  }
  return 0;
}
