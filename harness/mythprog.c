/* mythprog.c -- interpreter for small MassiveThreads programs (the "program DSL").
 *
 * usage: mythprog <program-file>      (scheduling options from VRT_* environment)
 *
 * Program file: first line "<nbodies>", then one line per body:
 *     <nops> <op> <a> <b> <c>  <op> <a> <b> <c> ...
 * Body 0 is run by the main thread; body k>0 is the start function of the thread
 * created by "CR k".  Every API call is bracketed by user-level events (U_*), which are
 * the observable side the trace specification checks against the hook events.
 */
#define _GNU_SOURCE
#include <myth/myth.h>
#include <errno.h>
#include <stdio.h>
#include <stdlib.h>
#include <string.h>
#include <time.h>
#include "vrt.h"

enum { OP_END = 0, OP_CR = 1, OP_JN = 2, OP_TJ = 3, OP_DT = 4, OP_YD = 5, OP_EX = 6, OP_RET = 7,
       OP_LK = 8, OP_TL = 9, OP_UL = 10, OP_INC = 11, OP_CWAIT = 12, OP_CSIG = 13, OP_CBC = 14,
       OP_BAR = 15, OP_JCDEC = 16, OP_JCWAIT = 17, OP_UCWAIT = 18, OP_UCSIG = 19,
       OP_FEWL = 20, OP_FEMS = 21, OP_ONCE = 22, OP_KSET = 23, OP_KGET = 24, OP_SLEEP = 25,
       OP_TLK = 26, OP_TJN = 27, OP_SETV = 28, OP_WAITV = 29, OP_NEST = 30, OP_PROBE = 31,
       OP_KCREATE = 32, OP_KDELETE = 33, OP_CANCEL = 34, OP_TESTCANCEL = 35, OP_BUSY = 36 };
enum { F_PF = 1, F_DETACH = 2, F_STACK = 4, F_ATTR = 8, F_NULLID = 16, F_DIRTY = 32 };

typedef struct { int op, a, b, c; } op_t;
typedef struct { int n; op_t *ops; } body_t;
#define MAXB 256
static int nbodies; static body_t bodies[MAXB];
static myth_thread_t handle[MAXB];
static volatile long cell[MAXB];       /* written by body k just before it ends */
#define MAXO 16
static myth_mutex_t mtx[MAXO]; static myth_cond_t cnd[MAXO]; static myth_barrier_t bar[MAXO];
static myth_join_counter_t jcs[MAXO]; static myth_uncond_t ucs[MAXO]; static myth_felock_t fes[MAXO];
static myth_once_t onces[MAXO]; static volatile long shared[MAXO]; static volatile long inside[MAXO];
static volatile long vars[MAXO]; static myth_key_t keys[MAXO];
static int bar_n[MAXO], jc_n[MAXO];
static volatile long once_runs[MAXO];

typedef struct { int k; long tok; } targ_t;
static targ_t targs[MAXB];

#define U vrt_user

static long run_ops(int k);

static void once_fn0(void){ U("U_OnceBody", 1, 0L); once_runs[0]++; myth_yield(); U("U_OnceBodyEnd", 1, 0L); }
static void once_fn1(void){ U("U_OnceBody", 1, 1L); once_runs[1]++; U("U_OnceBodyEnd", 1, 1L); }

static void *body_fn(void *a_){
  targ_t *a = a_; int k = a->k;
  U("U_BodyStart", 2, (long)k, a->tok);
  long v = run_ops(k);   /* plain return; default value 1000 + k, or the operand of RET */
  cell[k] = 5000 + k;
  U("U_BodyEnd", 3, (long)k, v, 0L);
  return (void *)v;
}

/* deliberately deep-ish frame so that myth_exit is called from a nested frame */
static __attribute__((noinline)) void nested_exit(int k, long v, int depth){
  volatile char pad[64]; pad[0] = (char)depth;
  if (depth > 0) { nested_exit(k, v, depth - 1); pad[1] = pad[0]; return; }
  cell[k] = 5000 + k;
  U("U_BodyEnd", 3, (long)k, v, 1L);
  myth_exit((void *)v);
}

static void dirty_stack(void){ volatile char junk[2048]; memset((void*)junk, 0x5a, sizeof junk); }

static void do_create(int k, op_t *o){
  int c = o->a, fl = o->b;
  targs[c].k = c; targs[c].tok = 7700 + c;
  U("U_CreateCall", 3, (long)k, (long)c, (long)fl);
  if (fl & (F_PF | F_DETACH | F_STACK | F_ATTR)){
    myth_thread_attr_t attr;
    if (fl & F_DIRTY) dirty_stack();
    myth_thread_attr_init(&attr);
    if (fl & F_PF) attr.child_first = 0;   /* no public setter exists for this field */
    if (fl & F_DETACH) myth_thread_attr_setdetachstate(&attr, 1);
    if (fl & F_STACK) myth_thread_attr_setstacksize(&attr, (size_t)o->c * 4096);
    if (fl & F_NULLID) myth_create_ex(NULL, &attr, body_fn, &targs[c]);
    else myth_create_ex(&handle[c], &attr, body_fn, &targs[c]);
  } else if (fl & F_NULLID) {
    myth_create_ex(NULL, 0, body_fn, &targs[c]);
  } else {
    handle[c] = myth_create(body_fn, &targs[c]);
  }
  U("U_CreateRet", 2, (long)k, (long)c);
}

static long run_ops(int k){
  body_t *b = &bodies[k]; int i;
  for (i = 0; i < b->n; i++){
    op_t *o = &b->ops[i];
    switch (o->op){
    case OP_END: return 1000 + k;
    case OP_CR: do_create(k, o); break;
    case OP_JN: { void *r = 0; U("U_JoinCall", 2, (long)k, (long)o->a);
      myth_join(handle[o->a], &r);
      U("U_JoinRet", 4, (long)k, (long)o->a, (long)r, cell[o->a]); break; }
    case OP_TJ: { void *r = 0; int rc;
      /* tryjoin until it succeeds, yielding in between (a = target, b = max attempts, 0 = unbounded) */
      int att = 0;
      for (;;){
        U("U_TryJoinCall", 2, (long)k, (long)o->a);
        rc = myth_tryjoin(handle[o->a], &r);
        U("U_TryJoinRet", 5, (long)k, (long)o->a, (long)rc, (long)(rc == 0 ? (long)r : 0), (long)(rc == 0 ? cell[o->a] : 0));
        if (rc == 0) break;
        att++;
        U("U_YieldCall", 2, (long)k, (long)myth_yield_option_local_first);
        myth_yield_ex(myth_yield_option_local_first);
        U("U_YieldRet", 1, (long)k);
      }
      break; }
    case OP_DT: U("U_DetachCall", 2, (long)k, (long)o->a); myth_detach(handle[o->a]); U("U_DetachRet", 2, (long)k, (long)o->a); break;
    case OP_YD: U("U_YieldCall", 2, (long)k, (long)o->a); myth_yield_ex(o->a); U("U_YieldRet", 1, (long)k); break;
    case OP_EX: nested_exit(k, (long)o->a, 3); break;
    case OP_RET: return (long)o->a;
    case OP_SETV: vars[o->a] = o->b; break;
    case OP_BUSY: { volatile int j; for (j = 0; j < o->a; j++) { } break; }
    default: fprintf(stderr, "mythprog: unknown op %d\n", o->op); exit(2);
    }
  }
  return 1000 + k;
}

/* wait (yielding) until every other worker is idle and this worker's queue is empty, so
   that detached threads have completely finished before the trace is closed */
static void quiesce(void){
  int guard = 0;
  for (;;){
    long before = vrt_nevents();
    U("U_YieldCall", 2, 0L, (long)myth_yield_option_local_only);
    myth_yield_ex(myth_yield_option_local_only);
    U("U_YieldRet", 1, 0L);
    if (vrt_nevents() - before == 3 && vrt_all_others_idle()) break;
    if (++guard > 100000) break;
  }
}

int main(int argc, char **argv){
  FILE *fp; int i, j; vrt_opts vo; myth_globalattr_t ga;
  if (argc < 2){ fprintf(stderr, "usage: mythprog prog\n"); return 2; }
  fp = fopen(argv[1], "r"); if (!fp){ perror(argv[1]); return 2; }
  if (fscanf(fp, "%d", &nbodies) != 1 || nbodies > MAXB) return 2;
  for (i = 0; i < nbodies; i++){
    if (fscanf(fp, "%d", &bodies[i].n) != 1) return 2;
    bodies[i].ops = calloc(bodies[i].n + 1, sizeof(op_t));
    for (j = 0; j < bodies[i].n; j++) if (fscanf(fp, "%d %d %d %d", &bodies[i].ops[j].op, &bodies[i].ops[j].a, &bodies[i].ops[j].b, &bodies[i].ops[j].c) != 4) return 2;
  }
  fclose(fp);
  vrt_opts_from_env(&vo);
  vrt_install_crash_handlers();
  myth_globalattr_init(&ga);
  myth_globalattr_set_n_workers(&ga, vo.nworkers);
  myth_globalattr_set_bind_workers(&ga, 0);
  myth_init_ex(&ga);
  vrt_arm(&vo, myth_self());
  U("U_BodyStart", 2, 0L, 0L);
  run_ops(0);
  quiesce();
  U("U_MainEnd", 0);
  vrt_disarm();
  vrt_dump();
  myth_fini();
  return 0;
}
