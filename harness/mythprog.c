/* mythprog.c -- interpreter for small MassiveThreads programs (the "program DSL").
 *
 * usage: mythprog <program-file>      (scheduling options from VRT_* environment)
 *
 * Program file: first line "<nbodies>", then one line per body:
 *     <nops> <op> <a> <b> <c>  <op> <a> <b> <c> ...
 * Body 0 is run by the main thread; body k>0 is the start function of the thread
 * created by "CR k".  Every API call is bracketed by user-level events (U_*), which are
 * the observable side the trace specification checks against the hook events.
 */
#define _GNU_SOURCE
#include <myth/myth.h>
#include <errno.h>
#include <stdio.h>
#include <stdlib.h>
#include <string.h>
#include <time.h>
#include "vrt.h"
#include "myth_verif.h"
#define U vrt_user

enum { OP_END = 0, OP_CR = 1, OP_JN = 2, OP_TJ = 3, OP_DT = 4, OP_YD = 5, OP_EX = 6, OP_RET = 7,
       OP_LK = 8, OP_TL = 9, OP_UL = 10, OP_INC = 11, OP_CWAIT = 12, OP_CSIG = 13, OP_CBC = 14,
       OP_BAR = 15, OP_JCDEC = 16, OP_JCWAIT = 17, OP_UCWAIT = 18, OP_UCSIG = 19,
       OP_FEWL = 20, OP_FEMS = 21, OP_ONCE = 22, OP_KSET = 23, OP_KGET = 24, OP_SLEEP = 25,
       OP_TLK = 26, OP_TJN = 27, OP_SETV = 28, OP_WAITV = 29, OP_NEST = 30, OP_PROBE = 31,
       OP_KCREATE = 32, OP_KDELETE = 33, OP_CANCEL = 34, OP_TESTCANCEL = 35, OP_BUSY = 36, OP_FELK = 37, OP_FEUL = 38, OP_WAITGE = 39, OP_CBCO = 40, OP_JCPOKE = 41, OP_DEEP = 42 };
enum { F_PF = 1, F_DETACH = 2, F_STACK = 4, F_ATTR = 8, F_NULLID = 16, F_DIRTY = 32 };

typedef struct { int op, a, b, c; } op_t;
typedef struct { int n; op_t *ops; } body_t;
#define MAXB 256
static int nbodies; static body_t bodies[MAXB];
static myth_thread_t handle[MAXB];
static volatile long cell[MAXB];       /* written by body k just before it ends */
#define MAXO 16
static myth_mutex_t mtx[MAXO]; static myth_cond_t cnd[MAXO]; static myth_barrier_t bar[MAXO];
static myth_join_counter_t jcs[MAXO]; static myth_uncond_t ucs[MAXO]; static myth_felock_t fes[MAXO];
static myth_once_t onces[MAXO]; static volatile long shared[MAXO]; static volatile long inside[MAXO];
static volatile long vars[MAXO];
#define MAXK 1100
static myth_key_t keys[MAXK]; static volatile int cancel_req[MAXB];
static int bar_n[MAXO], jc_n[MAXO];
static volatile long bufcnt[MAXO];        /* bounded buffer b: mutex b, cond 2b (not full), cond 2b+1 (not empty), capacity bufcap[b] */
static long bufcap[MAXO];
static volatile long ucw[MAXO];           /* uncond mailbox word: bit0 full, bit1 somebody sleeping, value << 2 */
static volatile long produced[MAXO], consumed[MAXO];
#define MXID(i) VMX(&mtx[i])
#define CVID(i) VCV(&cnd[i])
#define BRID(i) VBR(&bar[i])
#define JCID(i) VJC(&jcs[i])
#define UCID(i) VUC(&ucs[i])
#define ONID(i) VON(&onces[i])
#define FEID(i) VFE(&fes[i])
static myth_thread_t self_of[MAXB];
static int cur_body(void);
static void dtor1(void *v){ U("U_Dtor", 3, (long)cur_body(), 1L, (long)v); }
/* destructor 2 may suspend (prologue kind 8, bits: 1|2 = number of yields, 4 = also block on mutex 3): the terminating
   thread may then continue on another worker */
static int dyield_on = 0;
static void lock_(int k, int m); static void unlock_(int k, int m);
static void dtor2(void *v){ int k = cur_body(); U("U_Dtor", 3, (long)k, 2L, (long)v);
  if (dyield_on && v){ int i;
    U("U_DtorIn", 1, (long)k);
    for (i = 0; i < (dyield_on & 3); i++){ long opt = (i + (long)v) % 3; U("U_YieldCall", 2, (long)k, opt); myth_yield_ex((int)opt); U("U_YieldRet", 1, (long)k); }
    if (dyield_on & 4){ lock_(k, 3); unlock_(k, 3); }
    U("U_DtorOut", 1, (long)k); } }
/* destructor 3 may itself end the thread (prologue kind 6): the first time it is called with a value it calls myth_exit
   with the value the thread was ending with; the exit runs the remaining destructors and must not call this one again */
static int dexit_on = 0; static volatile long ret_of[256]; static volatile char dexit_done[256], dexit_off[256];
static void dtor3(void *v){ int k = cur_body(); U("U_Dtor", 3, (long)k, 3L, (long)v);
  if (dexit_on && v && k > 0 && k < 256 && !dexit_done[k] && !dexit_off[k]){ dexit_done[k] = 1; myth_exit((void *)ret_of[k]); } }
static void (*dtors[4])(void *) = { 0, dtor1, dtor2, dtor3 };
static void lock_(int k, int m){ U("U_LockCall", 2, (long)k, MXID(m)); myth_mutex_lock(&mtx[m]); U("U_LockRet", 2, (long)k, MXID(m)); }
static void unlock_(int k, int m){ U("U_UnlockCall", 2, (long)k, MXID(m)); myth_mutex_unlock(&mtx[m]); U("U_UnlockRet", 2, (long)k, MXID(m)); }
static int trylock_(int k, int m){ int rc; U("U_TryLockCall", 2, (long)k, MXID(m)); rc = myth_mutex_trylock(&mtx[m]); U("U_TryLockRet", 3, (long)k, MXID(m), (long)rc); return rc; }
static void cwait_(int k, int c, int m){ U("U_CondWaitCall", 3, (long)k, CVID(c), MXID(m)); myth_cond_wait(&cnd[c], &mtx[m]); U("U_CondWaitRet", 3, (long)k, CVID(c), MXID(m)); }
static void csig_(int k, int c, int bc){ U("U_CondSignalCall", 3, (long)k, CVID(c), (long)bc); if (bc) myth_cond_broadcast(&cnd[c]); else myth_cond_signal(&cnd[c]); U("U_CondSignalRet", 2, (long)k, CVID(c)); }
static void yield_(int k, int opt){ U("U_YieldCall", 2, (long)k, (long)opt); myth_yield_ex(opt); U("U_YieldRet", 1, (long)k); }
static void critical(int k, int m){ long v;
  /* occupancy witness: nobody else may be inside between lock and unlock */
  inside[m]++; v = shared[m]; if (inside[m] != 1) U("U_Broken", 2, (long)k, (long)m);
  shared[m] = v + 1; inside[m]--; }
static volatile long once_runs[MAXO];

typedef struct { int k; long tok; } targ_t;
static targ_t targs[MAXB];


static long run_ops(int k);

static void once_fn0(void){ U("U_OnceBody", 1, VON(&onces[0])); once_runs[0]++;
  U("U_YieldCall", 2, (long)cur_body(), 0L); myth_yield(); U("U_YieldRet", 1, (long)cur_body());
  U("U_OnceBodyEnd", 1, VON(&onces[0])); }
static void once_fn1(void){ U("U_OnceBody", 1, VON(&onces[1])); once_runs[1]++; U("U_OnceBodyEnd", 1, VON(&onces[1])); }
/* an init routine that blocks on a mutex (mutex 3, which other threads of the program hold across yields) */
static void once_fn2(void){ int k = cur_body(); U("U_OnceBody", 1, VON(&onces[2])); once_runs[2]++;
  lock_(k, 3); critical(k, 3); unlock_(k, 3);
  U("U_OnceBodyEnd", 1, VON(&onces[2])); }

/* an init routine that is a little program of its own (the operations of body once_body, which is never created as a
   thread): it may create and join threads, lock, yield ... */
static int once_body = 0;
static int exec_op(int k, op_t *o, long *ret);
static void once_fn3(void){ int k = cur_body(), i; long r_ = 0; U("U_OnceBody", 1, VON(&onces[3])); once_runs[3]++;
  for (i = 0; once_body > 0 && i < bodies[once_body].n; i++) if (exec_op(k, &bodies[once_body].ops[i], &r_)) break;
  U("U_OnceBodyEnd", 1, VON(&onces[3])); }

static void *body_fn(void *a_){
  targ_t *a = a_; int k = a->k;
  U("U_BodyStart", 2, (long)k, a->tok);
  long v = run_ops(k);   /* plain return; default value 1000 + k, or the operand of RET */
  cell[k] = 5000 + k; if (k < 256) ret_of[k] = v;
  U("U_BodyEnd", 3, (long)k, v, 0L);
  return (void *)v;
}

/* deliberately deep-ish frame so that myth_exit is called from a nested frame */
static __attribute__((noinline)) void nested_exit(int k, long v, int depth){
  volatile char pad[64]; pad[0] = (char)depth;
  if (depth > 0) { nested_exit(k, v, depth - 1); pad[1] = pad[0]; return; }
  cell[k] = 5000 + k; if (k < 256) ret_of[k] = v;
  U("U_BodyEnd", 3, (long)k, v, 1L);
  myth_exit((void *)v);
}

static void dirty_stack(void){ volatile char junk[2048]; memset((void*)junk, 0x5a, sizeof junk); }

static void do_create(int k, op_t *o){
  int c = o->a, fl = o->b;
  targs[c].k = c; targs[c].tok = 7700 + c;
  U("U_CreateCall", 3, (long)k, (long)c, (long)fl);
  if (fl & (F_PF | F_DETACH | F_STACK | F_ATTR)){
    myth_thread_attr_t attr;
    if (fl & F_DIRTY) dirty_stack();
    myth_thread_attr_init(&attr);
    if (fl & F_PF) attr.child_first = 0;   /* no public setter exists for this field */
    if (fl & F_DETACH) myth_thread_attr_setdetachstate(&attr, 1);
    if (fl & F_STACK) myth_thread_attr_setstacksize(&attr, (size_t)o->c * 4096);
    if (fl & F_NULLID) myth_create_ex(NULL, &attr, body_fn, &targs[c]);
    else myth_create_ex(&handle[c], &attr, body_fn, &targs[c]);
  } else if (fl & F_NULLID) {
    myth_create_ex(NULL, 0, body_fn, &targs[c]);
  } else {
    handle[c] = myth_create(body_fn, &targs[c]);
  }
  U("U_CreateRet", 2, (long)k, (long)c);
}

static int cur_body(void){ int i; myth_thread_t me_ = myth_self(); for (i = 0; i < MAXB; i++) if (self_of[i] == me_) return i; return 0; }
/* ---- C03 probe: run one operation with recognisable values in every callee-saved register and in a
   stack array, and compare afterwards (the operation may suspend the thread and resume it on another worker) */
static int exec_op(int k, op_t *o, long *ret);
typedef struct { int k; op_t *o; long ret; int fin; } pctx_t;
static void probe_thunk(void *p){ pctx_t *c = p; c->fin = exec_op(c->k, c->o, &c->ret); }
long verif_probe_call(void (*fn)(void *), void *arg, unsigned long pat);   /* mask of registers found changed */
__asm__(
  ".text\n.globl verif_probe_call\n.type verif_probe_call,@function\n"
  "verif_probe_call:\n"
  "  push %rbp\n  push %rbx\n  push %r12\n  push %r13\n  push %r14\n  push %r15\n  push %rdx\n"   /* 7 words + return address: rsp is 16-byte aligned */
  "  lea 1(%rdx),%rbx\n  lea 2(%rdx),%rbp\n  lea 3(%rdx),%r12\n  lea 4(%rdx),%r13\n  lea 5(%rdx),%r14\n  lea 6(%rdx),%r15\n"
  "  mov %rdi,%rax\n  mov %rsi,%rdi\n  call *%rax\n"
  "  mov (%rsp),%rdx\n  xor %eax,%eax\n"
  "  lea 1(%rdx),%rcx\n  cmp %rcx,%rbx\n  je 1f\n  or $1,%eax\n1:\n"
  "  lea 2(%rdx),%rcx\n  cmp %rcx,%rbp\n  je 2f\n  or $2,%eax\n2:\n"
  "  lea 3(%rdx),%rcx\n  cmp %rcx,%r12\n  je 3f\n  or $4,%eax\n3:\n"
  "  lea 4(%rdx),%rcx\n  cmp %rcx,%r13\n  je 4f\n  or $8,%eax\n4:\n"
  "  lea 5(%rdx),%rcx\n  cmp %rcx,%r14\n  je 5f\n  or $16,%eax\n5:\n"
  "  lea 6(%rdx),%rcx\n  cmp %rcx,%r15\n  je 6f\n  or $32,%eax\n6:\n"
  "  pop %rdx\n  pop %r15\n  pop %r14\n  pop %r13\n  pop %r12\n  pop %rbx\n  pop %rbp\n  ret\n"
  ".size verif_probe_call,.-verif_probe_call\n");
static __attribute__((noinline)) int probed_op(int k, op_t *o, long *ret, unsigned long pat){
  volatile unsigned long arr[160]; pctx_t c; long mask; int i, sbad = 0;
  for (i = 0; i < 160; i++) arr[i] = pat * 31 + (unsigned long)i * 0x9e3779b97f4a7c15UL;
  c.k = k; c.o = o; c.ret = 0; c.fin = 0;
  mask = verif_probe_call(probe_thunk, &c, pat);
  for (i = 0; i < 160; i++) if (arr[i] != pat * 31 + (unsigned long)i * 0x9e3779b97f4a7c15UL) sbad++;
  U("U_Probe", 4, (long)k, (long)o->op, mask, (long)sbad);
  *ret = c.ret; return c.fin;
}
/* use most of a stack of `bytes` bytes: recurse in frames of about 1 KiB down to about 60% of it (the rest is left to the harness's own frames), yield at the bottom (the
   thread is suspended with its deepest page in use), check the frames on the way back */
static __attribute__((noinline)) long deep_rec(int k, long left, int opt){
  volatile unsigned long pad[120]; long i, bad = 0;
  for (i = 0; i < 120; i++) pad[i] = 0xabcd0000UL + (unsigned long)(left ^ i);
  if (left > 1100) bad = deep_rec(k, left - 1024, opt);
  else yield_(k, opt);
  for (i = 0; i < 120; i++) if (pad[i] != 0xabcd0000UL + (unsigned long)(left ^ i)) bad++;
  return bad;
}
static long run_ops(int k){
  body_t *b = &bodies[k]; int i; long ret = 0;
  { int j_; myth_thread_t me_ = myth_self(); for (j_ = 0; j_ < MAXB; j_++) if (self_of[j_] == me_) self_of[j_] = 0; self_of[k] = me_; }
  for (i = 0; i < b->n; i++){
    op_t *o = &b->ops[i];
    if (o->op == OP_PROBE && i + 1 < b->n){        /* a = pattern: the next operation runs under the probe */
      i++;
      if (probed_op(k, &b->ops[i], &ret, 0x5eed000000000000UL + ((unsigned long)k << 32) + (unsigned long)o->a * 1000003UL)) return ret;
      continue;
    }
    if (exec_op(k, o, &ret)) return ret;
  }
  return 1000 + k;
}
static int exec_op(int k, op_t *o, long *ret){
    switch (o->op){
    case OP_END: *ret = 1000 + k; return 1;
    case OP_CR: do_create(k, o); break;
    case OP_JN: { void *r = 0; U("U_JoinCall", 2, (long)k, (long)o->a);
      myth_join(handle[o->a], &r); self_of[o->a] = 0;
      U("U_JoinRet", 4, (long)k, (long)o->a, (long)r, cell[o->a]); break; }
    case OP_TJ: { void *r = 0; int rc;
      /* tryjoin until it succeeds, yielding in between (a = target, b = max attempts, 0 = unbounded) */
      int att = 0;
      for (;;){
        U("U_TryJoinCall", 2, (long)k, (long)o->a);
        rc = myth_tryjoin(handle[o->a], &r);
        U("U_TryJoinRet", 5, (long)k, (long)o->a, (long)rc, (long)(rc == 0 ? (long)r : 0), (long)(rc == 0 ? cell[o->a] : 0));
        if (rc == 0) break;
        att++;
        myth_verif_spin(98);     /* a retry loop: "I cannot progress until somebody else moves" (priority strategies must not starve the others) */
        U("U_YieldCall", 2, (long)k, (long)myth_yield_option_local_first);
        myth_yield_ex(myth_yield_option_local_first);
        U("U_YieldRet", 1, (long)k);
      }
      break; }
    case OP_DT: U("U_DetachCall", 2, (long)k, (long)o->a); myth_detach(handle[o->a]); U("U_DetachRet", 2, (long)k, (long)o->a); break;
    case OP_YD: U("U_YieldCall", 2, (long)k, (long)o->a); myth_yield_ex(o->a); U("U_YieldRet", 1, (long)k); break;
    case OP_EX: nested_exit(k, (long)o->a, 3); break;
    case OP_RET: *ret = (long)o->a; return 1;
    case OP_SETV: vars[o->a] = o->b; break;
    case OP_LK: lock_(k, o->a); break;
    case OP_UL: unlock_(k, o->a); break;
    case OP_INC: /* lock; critical section (optionally yielding inside); unlock */
      lock_(k, o->a); critical(k, o->a); if (o->b) yield_(k, o->b - 1); unlock_(k, o->a); break;
    case OP_TL: /* trylock; on success critical section and unlock, otherwise (c != 0) retry after a yield */
      for (;;){ if (trylock_(k, o->a) == 0){ critical(k, o->a); if (o->b) yield_(k, o->b - 1); unlock_(k, o->a); break; }
        if (!o->c) break; myth_verif_spin(98); yield_(k, myth_yield_option_local_first); }
      break;
    case OP_CWAIT: /* a = buffer: consume one item */
      { int b_ = o->a; lock_(k, b_);
        while (bufcnt[b_] == 0) cwait_(k, 2 * b_ + 1, b_);
        bufcnt[b_]--; consumed[b_]++;
        if (o->c) { unlock_(k, b_); csig_(k, 2 * b_, o->b); }     /* c = 1: the common "unlock, then signal" idiom */
        else { csig_(k, 2 * b_, o->b); unlock_(k, b_); }
        break; }
    case OP_CSIG: /* a = buffer: produce one item */
      { int b_ = o->a; lock_(k, b_);
        while (bufcnt[b_] == bufcap[b_]) cwait_(k, 2 * b_, b_);
        bufcnt[b_]++; produced[b_]++;
        if (o->c) { unlock_(k, b_); csig_(k, 2 * b_ + 1, o->b); }
        else { csig_(k, 2 * b_ + 1, o->b); unlock_(k, b_); }
        break; }
    case OP_WAITV: /* gate: wait under mutex a / cond 2a until vars[a] == b */
      { int g = o->a; lock_(k, g); while (vars[g] != o->b) cwait_(k, 2 * g, g); unlock_(k, g); break; }
    case OP_CBC: /* gate: set vars[a] = b and broadcast (c = 1) or signal (c = 0) */
      { int g = o->a; lock_(k, g); vars[g] = o->b; csig_(k, 2 * g, o->c); unlock_(k, g); break; }
    case OP_WAITGE: /* gate with a monotone predicate: wait under mutex a / cond 2a until vars[a] >= b */
      { int g = o->a; lock_(k, g); while (vars[g] < o->b) cwait_(k, 2 * g, g); unlock_(k, g); break; }
    case OP_CBCO: /* "unlock, then signal": set vars[a] = b under the mutex, release it, then broadcast (c = 1) or signal */
      { int g = o->a; lock_(k, g); vars[g] = o->b; unlock_(k, g); csig_(k, 2 * g, o->c); break; }
    case OP_BAR: { int rc; U("U_BarrierCall", 2, (long)k, BRID(o->a)); rc = myth_barrier_wait(&bar[o->a]);
        U("U_BarrierRet", 4, (long)k, BRID(o->a), (long)rc, (long)bar_n[o->a]); break; }
    case OP_JCPOKE: /* a = join counter, b = m: the word is set as if all but m of the N decrements had been made while
                       nobody waited (a state those decrement calls would reach; used for N too large to count up to) */
      { long d_ = (long)jc_n[o->a] - (long)o->b; U("U_JcPoke", 3, (long)k, JCID(o->a), d_); jcs[o->a].state = d_; break; }
    case OP_JCDEC: U("U_JcDecCall", 2, (long)k, JCID(o->a)); myth_join_counter_dec(&jcs[o->a]); U("U_JcDecRet", 2, (long)k, JCID(o->a)); break;
    case OP_JCWAIT: U("U_JcWaitCall", 2, (long)k, JCID(o->a)); myth_join_counter_wait(&jcs[o->a]); U("U_JcWaitRet", 3, (long)k, JCID(o->a), (long)jc_n[o->a]); break;
    case OP_UCSIG: /* mailbox put (documented uncond protocol, as in tests/myth_uncond_signal.c, extended to several
                      parties: word bits 1 = full, 2 = somebody waits on the variable, 4 = a signal is in progress;
                      at most one waiter at a time, and nobody announces itself before the previous signal has returned) */
      { int u = o->a; for (;;){ long old = ucw[u];
          if ((old & 4) || ((old & 1) && (old & 2))){ myth_verif_spin(98); yield_(k, 2); }
          else if (old & 1){ if (__sync_bool_compare_and_swap(&ucw[u], old, old | 2)){ U("U_UcWaitCall", 2, (long)k, UCID(u)); myth_uncond_wait(&ucs[u]); U("U_UcWaitRet", 2, (long)k, UCID(u)); } }
          else if (__sync_bool_compare_and_swap(&ucw[u], old, ((long)o->b << 3) | 1 | ((old & 2) ? 4 : 0))){
            if (old & 2){ U("U_UcSignalCall", 2, (long)k, UCID(u)); myth_uncond_signal(&ucs[u]); U("U_UcSignalRet", 2, (long)k, UCID(u));
                          __sync_fetch_and_and(&ucw[u], ~4L); }
            produced[u]++; break; } }
        break; }
    case OP_UCWAIT: /* mailbox get */
      { int u = o->a; for (;;){ long old = ucw[u];
          if (old & 4){ myth_verif_spin(98); yield_(k, 2); }
          else if (old & 1){ if (__sync_bool_compare_and_swap(&ucw[u], old, (old & 2) ? 4 : 0)){
              if (old & 2){ U("U_UcSignalCall", 2, (long)k, UCID(u)); myth_uncond_signal(&ucs[u]); U("U_UcSignalRet", 2, (long)k, UCID(u));
                            __sync_fetch_and_and(&ucw[u], ~4L); }
              consumed[u]++; break; } }
          else if (old & 2){ myth_verif_spin(98); yield_(k, 2); }   /* empty and somebody already waits: one waiter per rendezvous */
          else if (__sync_bool_compare_and_swap(&ucw[u], old, old | 2)){ U("U_UcWaitCall", 2, (long)k, UCID(u)); myth_uncond_wait(&ucs[u]); U("U_UcWaitRet", 2, (long)k, UCID(u)); } }
        break; }
    case OP_KCREATE: { int rc; myth_key_t kk = -1; /* a = slot, b = destructor id (0 none) */
        U("U_KeyCreateCall", 2, (long)k, (long)o->b); rc = myth_key_create(&kk, dtors[o->b & 3]);
        if (rc == 0) keys[o->a] = kk; U("U_KeyCreateRet", 3, (long)k, (long)rc, (long)(rc == 0 ? kk : -1)); break; }
    case OP_KDELETE: { int rc; long kk = o->b ? o->c : keys[o->a];   /* b = 1: raw key index in c */
        U("U_KeyDeleteCall", 2, (long)k, kk); rc = myth_key_delete((myth_key_t)kk); U("U_KeyDeleteRet", 3, (long)k, kk, (long)rc); break; }
    case OP_KSET: { int rc; long kk = o->c ? o->a : keys[o->a];      /* c = 1: raw key index in a; value b (0 = NULL) */
        rc = myth_setspecific((myth_key_t)kk, (void *)(long)o->b); U("U_SetSpecific", 4, (long)k, kk, (long)o->b, (long)rc); break; }
    case OP_KGET: { void *v; long kk = o->c ? o->a : keys[o->a];
        v = myth_getspecific((myth_key_t)kk); U("U_GetSpecific", 3, (long)k, kk, (long)v); break; }
    case OP_CANCEL: U("U_CancelCall", 2, (long)k, (long)o->a); myth_cancel(handle[o->a]); cancel_req[o->a] = 1; U("U_CancelRet", 2, (long)k, (long)o->a); break;
    case OP_TESTCANCEL: /* poll until cancelled (never returns normally) */
      if (k < 256) dexit_off[k] = 1;
      for (;;){
        U("U_TestCancelCall", 1, (long)k); myth_testcancel(); U("U_TestCancelRet", 1, (long)k);
        myth_verif_spin(98); yield_(k, myth_yield_option_local_first); }
      break;
    case OP_SLEEP: { struct timespec rq; int rc; rq.tv_sec = o->a; rq.tv_nsec = o->b;   /* a = sec, b = nsec (possibly malformed) */
        if (o->c == 1){        /* usleep(b microseconds): the request as the caller means it */
          unsigned int us = (unsigned int)o->b;
          U("U_NanosleepCall", 3, (long)k, (long)(us / 1000000u), (long)(us % 1000000u) * 1000L); rc = myth_usleep(us); U("U_NanosleepRet", 2, (long)k, (long)rc); break; }
        if (o->c == 2){        /* sleep(a seconds) */
          U("U_NanosleepCall", 3, (long)k, (long)o->a, 0L); rc = (int)myth_sleep((unsigned int)o->a); U("U_NanosleepRet", 2, (long)k, (long)rc); break; }
        U("U_NanosleepCall", 3, (long)k, (long)o->a, (long)o->b); rc = myth_nanosleep(&rq, 0); U("U_NanosleepRet", 2, (long)k, (long)rc); break; }
    case OP_TLK: { struct timespec now, dl; int rc; long ns;   /* a = mutex, b = relative timeout in us (may be negative: already past) */
        myth_verif_clock(&now); ns = now.tv_nsec + (long)o->b * 1000; dl.tv_sec = now.tv_sec; 
        while (ns >= 1000000000L){ ns -= 1000000000L; dl.tv_sec++; } while (ns < 0){ ns += 1000000000L; dl.tv_sec--; } dl.tv_nsec = ns;
        U("U_TimedLockCall", 4, (long)k, MXID(o->a), (long)dl.tv_sec, (long)dl.tv_nsec);
        rc = myth_mutex_timedlock(&mtx[o->a], &dl);
        U("U_TimedLockRet", 3, (long)k, MXID(o->a), (long)rc);
        if (rc == 0){ critical(k, o->a); if (o->c) yield_(k, o->c - 1); unlock_(k, o->a); }
        break; }
    case OP_TJN: { struct timespec now, dl; int rc; long ns; void *r = 0;   /* a = target, b = relative timeout in us; retried until it succeeds */
        for (;;){
          myth_verif_clock(&now); ns = now.tv_nsec + (long)o->b * 1000; dl.tv_sec = now.tv_sec;
          while (ns >= 1000000000L){ ns -= 1000000000L; dl.tv_sec++; } while (ns < 0){ ns += 1000000000L; dl.tv_sec--; } dl.tv_nsec = ns;
          U("U_TimedJoinCall", 4, (long)k, (long)o->a, (long)dl.tv_sec, (long)dl.tv_nsec);
          rc = myth_timedjoin(handle[o->a], &r, &dl);
          U("U_TimedJoinRet", 5, (long)k, (long)o->a, (long)rc, (long)(rc == 0 ? (long)r : 0), (long)(rc == 0 ? cell[o->a] : 0));
          if (rc == 0) break;
          myth_verif_spin(98); yield_(k, myth_yield_option_local_first);
        }
        self_of[o->a] = 0; break; }
    case OP_ONCE: U("U_OnceCall", 2, (long)k, ONID(o->a)); myth_once(&onces[o->a], o->a == 0 ? once_fn0 : o->a == 2 ? once_fn2 : o->a == 3 ? once_fn3 : once_fn1); U("U_OnceRet", 2, (long)k, ONID(o->a)); break;
    case OP_FEWL: /* a = felock, b = status to wait for; c = 1: consume (count), 2: produce */
      U("U_FeWaitLockCall", 5, (long)k, FEID(o->a), (long)o->b, VMX(fes[o->a].mutex), VCV(&fes[o->a].cond[o->b]));
      myth_felock_wait_and_lock(&fes[o->a], o->b);
      U("U_FeWaitLockRet", 3, (long)k, FEID(o->a), (long)o->b);
      if (o->c == 1) consumed[o->a]++; else if (o->c == 2) produced[o->a]++;
      break;
    case OP_FEMS:
      U("U_FeMarkCall", 5, (long)k, FEID(o->a), (long)o->b, VMX(fes[o->a].mutex), VCV(&fes[o->a].cond[o->b]));
      myth_felock_mark_and_signal(&fes[o->a], o->b);
      U("U_FeMarkRet", 3, (long)k, FEID(o->a), (long)o->b); break;
    case OP_BUSY: { volatile int j; for (j = 0; j < o->a; j++) { } break; }
    case OP_FELK: /* plain lock / unlock of a full/empty lock (its mutex), mixed with the status operations */
      U("U_LockCall", 2, (long)k, VMX(fes[o->a].mutex)); myth_felock_lock(&fes[o->a]); U("U_LockRet", 2, (long)k, VMX(fes[o->a].mutex)); break;
    case OP_FEUL:
      U("U_UnlockCall", 2, (long)k, VMX(fes[o->a].mutex)); myth_felock_unlock(&fes[o->a]); U("U_UnlockRet", 2, (long)k, VMX(fes[o->a].mutex)); break;
    case OP_DEEP: { long bad = deep_rec(k, (long)o->a * 4096L * 60 / 100 - 3072, o->b);   /* a = stack size in pages, b = yield option */
        U("U_Probe", 4, (long)k, (long)o->op, 0L, bad); break; }
    case OP_PROBE: break;
    default: fprintf(stderr, "mythprog: unknown op %d\n", o->op); exit(2);
    }
    return 0;
}

/* wait (yielding) until every other worker is idle and this worker's queue is empty, so
   that detached threads have completely finished before the trace is closed */
/* custom steal function installed through the work-stealing API: picks a random victim and takes its
   oldest thread unless the decision callback declines it (mode 1: every second candidate, mode 2: always
   the first time a candidate is seen) */
static int vstep_ms = 0;   /* prologue kind 5: step bound of the virtual clock in ms (long sleeps) */
static int ws_mode = 0; static long ws_calls = 0; static myth_thread_t ws_last = 0;
static int ws_decide(myth_thread_t th, void *ud){ (void)ud; ws_calls++;
  if (ws_mode == 1) return (ws_calls % 2) == 0;
  if (ws_mode == 2){ if (th != ws_last){ ws_last = th; return 0; } return 1; }
  return 1; }
static myth_thread_t ws_steal(int rank){ int nw = myth_get_num_workers(); int v;
  if (nw <= 1) return 0;
  v = myth_wsapi_rand(); if (v == rank) v = (v + 1) % nw;
  if (ws_mode == 3){   /* look before you steal: peek at the victim's oldest thread (hint cache), then take */
    char buf[64]; size_t sz = sizeof buf; (void)myth_wsapi_runqueue_peek(v, buf, &sz); }
  return myth_wsapi_runqueue_take(v, ws_decide, 0); }
static void quiesce(void){
  int guard = 0;
  for (;;){
    const char *nm = ""; long la = -1;
    U("U_YieldCall", 2, 0L, (long)myth_yield_option_local_only);
    myth_yield_ex(myth_yield_option_local_only);
    U("U_YieldRet", 1, 0L);
    /* ... YieldBeg, QPop(q,0), YieldEnd, U_YieldRet: the local queue was empty, nothing was switched to */
    if (vrt_peek(3, &nm, &la) && !strcmp(nm, "QPop") && vrt_peek_arg(3, 2) == 0 && vrt_all_others_idle()) break;
    if (++guard > 3000) vrt_giveup("HANG");      /* the system never becomes quiescent */
    myth_verif_spin(99);     /* "I cannot progress until the others move": priority-based strategies must let them run */
  }
}

int main(int argc, char **argv){
  FILE *fp; int i, j; vrt_opts vo; myth_globalattr_t ga;
  if (argc < 2){ fprintf(stderr, "usage: mythprog prog\n"); return 2; }
  fp = fopen(argv[1], "r"); if (!fp){ perror(argv[1]); return 2; }
  int nini;
  if (fscanf(fp, "%d", &nbodies) != 1 || nbodies > MAXB) return 2;
  for (i = 0; i < MAXO; i++){ bar_n[i] = 2; jc_n[i] = 1; bufcap[i] = 1; }
  if (fscanf(fp, "%d", &nini) != 1) return 2;
  for (i = 0; i < nini; i++){ int kind, idx, n; if (fscanf(fp, "%d %d %d", &kind, &idx, &n) != 3) return 2;
    if (kind == 1) bar_n[idx] = n; else if (kind == 2) jc_n[idx] = n; else if (kind == 3) bufcap[idx] = n; else if (kind == 4) ws_mode = n; else if (kind == 5) vstep_ms = n; else if (kind == 6) dexit_on = n; else if (kind == 7) once_body = n; else if (kind == 8) dyield_on = n; }
  for (i = 0; i < nbodies; i++){
    if (fscanf(fp, "%d", &bodies[i].n) != 1) return 2;
    bodies[i].ops = calloc(bodies[i].n + 1, sizeof(op_t));
    for (j = 0; j < bodies[i].n; j++) if (fscanf(fp, "%d %d %d %d", &bodies[i].ops[j].op, &bodies[i].ops[j].a, &bodies[i].ops[j].b, &bodies[i].ops[j].c) != 4) return 2;
  }
  fclose(fp);
  vrt_opts_from_env(&vo);
  if (vstep_ms > 0) vo.vclock_step_ns = (long)vstep_ms * 1000000L;
  vrt_install_crash_handlers();
  myth_globalattr_init(&ga);
  myth_globalattr_set_n_workers(&ga, vo.nworkers);
  myth_globalattr_set_bind_workers(&ga, 0);
  myth_init_ex(&ga);
  /* the objects live in memory that is NOT zero when they are initialised (as in a recycled heap block or an
     automatic variable), and half of the runs pass explicit (default) attribute objects instead of NULL */
  { int with_attr = (vo.seed & 1);
    myth_mutexattr_t ma; myth_condattr_t ca; myth_barrierattr_t ba; myth_join_counterattr_t ja; myth_felockattr_t fa;
    myth_mutexattr_init(&ma); myth_condattr_init(&ca); myth_barrierattr_init(&ba); myth_join_counterattr_init(&ja); myth_felockattr_init(&fa);
    memset(mtx, 0x5a, sizeof mtx); memset(cnd, 0x5a, sizeof cnd); memset(bar, 0x5a, sizeof bar);
    memset(jcs, 0x5a, sizeof jcs); memset(ucs, 0x5a, sizeof ucs); memset(fes, 0x5a, sizeof fes);
    for (i = 0; i < MAXO; i++){
      myth_mutex_init(&mtx[i], with_attr ? &ma : 0); myth_cond_init(&cnd[i], with_attr ? &ca : 0); myth_barrier_init(&bar[i], with_attr ? &ba : 0, bar_n[i]);
      myth_join_counter_init(&jcs[i], with_attr ? &ja : 0, jc_n[i]); myth_uncond_init(&ucs[i]); myth_felock_init(&fes[i], with_attr ? &fa : 0);
      onces[i].state = 0;
    } }
  if (ws_mode) myth_wsapi_set_stealfunc(ws_steal);
  vrt_arm(&vo, myth_self());
  U("U_BodyStart", 2, 0L, 0L);
  run_ops(0);
  quiesce();
  U("U_MainEnd", 0);
  vrt_disarm();
  vrt_dump();
  myth_fini();
  return 0;
}
