/* shared driver for the C17 harnesses: the parent (which never initialises the thread library) forks a child
 * that runs the cases from `start`; the child reports the case it is about to run through a pipe; when the
 * child dies or makes no progress for HANG_S seconds the parent reports CRASH / HANG for that case and
 * restarts after it. */
#include <stdio.h>
#include <stdlib.h>
#include <string.h>
#include <signal.h>
#include <unistd.h>
#include <poll.h>
#include <sys/wait.h>
#define HANG_S 8
typedef struct { char kind[8]; long first, last, step, grain, as, rs, is, at; } case_t;
static case_t *cases; static long ncases;
static void run_case(long idx, case_t *c);      /* provided by the harness: prints one line "<idx> ..." */
static void harness_init(void);
static int drive(const char *path){
  FILE *fp = fopen(path, "r"); long start = 0;
  if (!fp) return 2;
  cases = (case_t*)calloc(200000, sizeof(case_t));
  while (fscanf(fp, "%7s %ld %ld %ld %ld %ld %ld %ld %ld", cases[ncases].kind, &cases[ncases].first, &cases[ncases].last, &cases[ncases].step,
                &cases[ncases].grain, &cases[ncases].as, &cases[ncases].rs, &cases[ncases].is, &cases[ncases].at) == 9) ncases++;
  fclose(fp);
  while (start < ncases){
    int pfd[2]; pid_t pid; int st; long done = -1; struct pollfd p; char buf[64]; int n, hang = 0;
    if (pipe(pfd)) return 2;
    fflush(stdout);
    pid = fork();
    if (pid == 0){
      long i; close(pfd[0]);
      { int dn = open("/dev/null", 1); dup2(dn, 2); }
      harness_init();
      for (i = start; i < ncases; i++){
        char b[32]; int l = snprintf(b, sizeof b, "%ld\n", i); if (write(pfd[1], b, l) < 0) _exit(3);
        run_case(i, &cases[i]); fflush(stdout);
      }
      if (write(pfd[1], "-2\n", 3) < 0) _exit(3);
      _exit(0);
    }
    close(pfd[1]);
    p.fd = pfd[0]; p.events = POLLIN;
    for (;;){
      int r = poll(&p, 1, HANG_S * 1000);
      if (r == 0){ hang = 1; kill(pid, SIGKILL); break; }
      n = (int)read(pfd[0], buf, sizeof buf - 1);
      if (n <= 0) break;
      buf[n] = 0;
      { char *q = buf; while (*q){ long v = strtol(q, &q, 10); done = v; while (*q == '\n') q++; } }
      if (done == -2) break;
    }
    close(pfd[0]);
    waitpid(pid, &st, 0);
    if (done == -2) break;
    if (done < start) done = start;
    printf("%ld %s %d\n", done, hang ? "HANG" : "CRASH", WIFSIGNALED(st) ? WTERMSIG(st) : -WEXITSTATUS(st));
    start = done + 1;
  }
  return 0;
}
