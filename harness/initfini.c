/* initfini.c -- initialisation / finalisation histories (C15).
 * usage: initfini <trace-out> <gen>...   with <gen> one of
 *    a:<N>   explicit myth_init_ex with an attribute object asking for N workers
 *    e:<X>   myth_init() with the environment as it is; the caller states the expected request X
 *            (X = value of MYTH_NUM_WORKERS according to the reference semantics, 0 = default)
 *    i:<X>   implicit initialisation by the first myth_create, environment as it is
 *    g:<N>:<digits>  the global attributes through the NULL-attribute interface (worker count, then the settings
 *            named by the digits), then myth_init()
 *    a suffix k (e.g. a:4k) adds the key-exhaustion test to that generation
 * Every generation reports the number of workers, lets a few threads report their worker index,
 * and finalises.  Events are recorded in "free recording" mode (mutex order). */
#define _GNU_SOURCE
#include <myth/myth.h>
#include <stdio.h>
#include <stdlib.h>
#include <string.h>
#include <unistd.h>
#include <sched.h>
#include "vrt.h"
#define U vrt_user
static void *report(void *a){ (void)a; U("U_WorkerNum", 1, (long)myth_get_worker_num()); myth_yield(); U("U_WorkerNum", 1, (long)myth_get_worker_num()); return 0; }
int main(int argc, char **argv){
  int g;
  if (argc < 3) return 2;
  cpu_set_t cpus0; sched_getaffinity(0, sizeof cpus0, &cpus0);
  vrt_install_crash_handlers();
  vrt_set_out(argv[1]);
  vrt_free_record(1);
  for (g = 2; g < argc; g++){
    char kind = argv[g][0]; long x = atol(argv[g] + 2); int i; myth_thread_t th[6];
    U("U_Request", 1, x);
    int keys_test = strchr(argv[g], 'k') != 0;
    if (kind == 'g'){
      /* the process-wide attributes through the NULL-attribute interface: the worker count first, then other
         settings in an order chosen by the caller (digits after the second ':'), then plain myth_init() */
      const char *o = strchr(argv[g] + 2, ':');
      myth_globalattr_set_n_workers(0, (size_t)x);
      for (o = o ? o + 1 : ""; *o; o++){
        if (*o == '1') myth_globalattr_set_stacksize(0, 256 * 1024);
        else if (*o == '2') myth_globalattr_set_guardsize(0, 4096);
        else if (*o == '3') myth_globalattr_set_bind_workers(0, 0);
        else if (*o == '4') myth_globalattr_set_child_first(0, 1);
      }
      myth_init();
    } else
    if (kind == 'a'){
      myth_globalattr_t ga; myth_globalattr_init(&ga); myth_globalattr_set_n_workers(&ga, (size_t)x);
      myth_globalattr_set_bind_workers(&ga, 0); myth_init_ex(&ga);
    } else if (kind == 'e'){
      myth_init();
    }
    for (i = 0; i < 6; i++) th[i] = myth_create(report, 0);     /* (implicit initialisation happens here for kind 'i') */
    U("U_NumWorkers", 1, (long)myth_get_num_workers());
    U("U_WorkerNum", 1, (long)myth_get_worker_num());
    for (i = 0; i < 6; i++) myth_join(th[i], 0);
    if (keys_test){
      /* a freshly initialised library hands out exactly 1024 pairwise distinct keys, then refuses; two of them are
         deleted (first created, then last created) and the rest is left to the next initialisation */
      static myth_key_t ks[1100]; static char seen[4096]; int n = 0, distinct = 1, j;
      memset(seen, 0, sizeof seen);
      while (n < 1100 && myth_key_create(&ks[n], 0) == 0){
        if (ks[n] < 0 || ks[n] >= 4096 || seen[ks[n]]) distinct = 0; else seen[ks[n]] = 1;
        n++; }
      U("U_KeysExhausted", 2, (long)n, (long)distinct);
      if (n >= 2){ myth_key_delete(ks[0]); myth_key_delete(ks[n - 1]); }
      (void)j;
    }
    myth_fini();
    /* the library leaves the calling thread bound to worker 0's CPU; give it its CPU set back, as a program that
       goes on using the machine would */
    sched_setaffinity(0, sizeof cpus0, &cpus0);
  }
  vrt_dump();
  printf("ok\n");
  return 0;
}
