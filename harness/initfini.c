/* initfini.c -- initialisation / finalisation histories (C15).
 * usage: initfini <trace-out> <gen>...   with <gen> one of
 *    a:<N>   explicit myth_init_ex with an attribute object asking for N workers
 *    e:<X>   myth_init() with the environment as it is; the caller states the expected request X
 *            (X = value of MYTH_NUM_WORKERS according to the reference semantics, 0 = default)
 *    i:<X>   implicit initialisation by the first myth_create, environment as it is
 * Every generation reports the number of workers, lets a few threads report their worker index,
 * and finalises.  Events are recorded in "free recording" mode (mutex order). */
#define _GNU_SOURCE
#include <myth/myth.h>
#include <stdio.h>
#include <stdlib.h>
#include <string.h>
#include <unistd.h>
#include "vrt.h"
#define U vrt_user
static void *report(void *a){ (void)a; U("U_WorkerNum", 1, (long)myth_get_worker_num()); myth_yield(); U("U_WorkerNum", 1, (long)myth_get_worker_num()); return 0; }
int main(int argc, char **argv){
  int g;
  if (argc < 3) return 2;
  vrt_install_crash_handlers();
  vrt_set_out(argv[1]);
  vrt_free_record(1);
  for (g = 2; g < argc; g++){
    char kind = argv[g][0]; long x = atol(argv[g] + 2); int i; myth_thread_t th[6];
    U("U_Request", 1, x);
    if (kind == 'a'){
      myth_globalattr_t ga; myth_globalattr_init(&ga); myth_globalattr_set_n_workers(&ga, (size_t)x);
      myth_globalattr_set_bind_workers(&ga, 0); myth_init_ex(&ga);
    } else if (kind == 'e'){
      myth_init();
    }
    for (i = 0; i < 6; i++) th[i] = myth_create(report, 0);     /* (implicit initialisation happens here for kind 'i') */
    U("U_NumWorkers", 1, (long)myth_get_num_workers());
    U("U_WorkerNum", 1, (long)myth_get_worker_num());
    for (i = 0; i < 6; i++) myth_join(th[i], 0);
    myth_fini();
  }
  vrt_dump();
  printf("ok\n");
  return 0;
}
