/* bulk.c -- create_join_many_ex / create_join_various_ex on every instance enumerated by BulkForkJoin.tla.
 * Per case one line:  "<idx> OK <count_0> ... <count_n+1>"  (how often the function was applied to each item)
 * or "<idx> BAD <what>" when a slot outside the allowed ones was written / a result or id is wrong. */
#define _GNU_SOURCE
#include <myth/myth.h>
#include <fcntl.h>
#include "bulk_common.h"
#define MAXI 64
static long counts[MAXI + 4];
static long argbuf[4 * MAXI + 16];
static void *resbuf[4 * MAXI + 16];
static myth_thread_t idbuf[4 * MAXI + 16];
static myth_thread_attr_t attrbuf[MAXI + 4];
#define RES_GUARD ((void*)0xA5A5A5A5A5A5A5A5UL)
#define ID_GUARD ((myth_thread_t)0x5C5C5C5C5C5C5C5CUL)
static void *f_even(void *a){ long i = *(long*)a; if (i >= 0 && i < MAXI) __sync_fetch_and_add(&counts[i], 1); return (void*)(100 + i); }
static void *f_odd(void *a){ long i = *(long*)a; if (i >= 0 && i < MAXI) __sync_fetch_and_add(&counts[i], 1); return (void*)(200 + i); }
static void harness_init(void){
  myth_globalattr_t ga; char *s = getenv("BULK_NW");
  myth_globalattr_init(&ga); myth_globalattr_set_n_workers(&ga, s ? atoi(s) : 3); myth_globalattr_set_bind_workers(&ga, 0); myth_init_ex(&ga);
}
static int one(long idx, case_t *c, int various, char *why){
  long n = c->last, i; myth_func_t funcs[MAXI + 1];
  memset(counts, 0, sizeof counts);
  for (i = 0; i < 4 * MAXI + 16; i++){ argbuf[i] = -777; resbuf[i] = RES_GUARD; idbuf[i] = ID_GUARD; }
  for (i = 0; i < n; i++){ argbuf[8 + i * c->as] = i; funcs[i] = (i % 2) ? f_odd : f_even;
    if (c->at){ myth_thread_attr_init(&attrbuf[i]); if (i % 3 == 1) myth_thread_attr_setstacksize(&attrbuf[i], 65536); } }
  if (various)
    myth_create_join_various_ex(c->is ? idbuf + 8 : 0, c->at ? attrbuf : 0, funcs, argbuf + 8, c->rs ? resbuf + 8 : 0,
                                c->is * sizeof(myth_thread_t), sizeof(myth_thread_attr_t), sizeof(myth_func_t), c->as * sizeof(long), c->rs * sizeof(void*), n);
  else
    myth_create_join_many_ex(c->is ? idbuf + 8 : 0, c->at ? attrbuf : 0, f_even, argbuf + 8, c->rs ? resbuf + 8 : 0,
                             c->is * sizeof(myth_thread_t), sizeof(myth_thread_attr_t), c->as * sizeof(long), c->rs * sizeof(void*), n);
  for (i = 0; i < 4 * MAXI + 16; i++){
    long k = i - 8; int rslot = c->rs && k >= 0 && k % c->rs == 0 && k / c->rs < n; int islot = c->is && k >= 0 && k % c->is == 0 && k / c->is < n;
    if (rslot){ long item = k / c->rs; void *want = (void*)((various && item % 2 ? 200 : 100) + item);
      if (resbuf[i] != want){ sprintf(why, "result of item %ld is %p, expected %p", item, resbuf[i], want); return 0; } }
    else if (resbuf[i] != RES_GUARD){ sprintf(why, "result slot %ld written although it belongs to no item", k); return 0; }
    if (islot){ if (idbuf[i] == ID_GUARD || idbuf[i] == 0){ sprintf(why, "thread id of item %ld not stored", k / c->is); return 0; } }
    else if (idbuf[i] != ID_GUARD){ sprintf(why, "id slot %ld written although it belongs to no item", k); return 0; }
    if (!(k >= 0 && k % c->as == 0 && k / c->as < n) && argbuf[i] != -777){ sprintf(why, "argument area modified at %ld", k); return 0; }
  }
  return 1;
}
static void run_case(long idx, case_t *c){
  char why[256]; int v; long i;
  if (strcmp(c->kind, "cjm")){ printf("%ld SKIP\n", idx); return; }
  for (v = 0; v < 2; v++){
    if (!one(idx, c, v, why)){ printf("%ld BAD %s: %s\n", idx, v ? "various" : "many", why); return; }
    if (v == 0){ long tmp[MAXI + 4]; memcpy(tmp, counts, sizeof tmp); (void)tmp; }
    for (i = 0; i <= c->last + 1 && i < MAXI; i++) if (counts[i] != (i < c->last ? 1 : 0)){ printf("%ld BAD %s: function applied %ld times to item %ld\n", idx, v ? "various" : "many", counts[i], i); return; }
  }
  printf("%ld OK", idx); for (i = 0; i <= c->last + 1 && i < MAXI; i++) printf(" %ld", counts[i]); printf("\n");
}
int main(int argc, char **argv){ if (argc < 2) return 2; return drive(argv[1]); }
