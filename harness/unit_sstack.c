/* unit_sstack.c: strict replay of SleepStack behaviours (TLC -simulate of SSReplay.tla) in the real
   myth_sleep_stack_push / myth_sleep_stack_pop: one OS thread per specification process, released for exactly
   one labelled shared access at a time; after every step the label the code is parked at and the shared state
   (top, next[]) must equal the specification's. */
#define _GNU_SOURCE
#include <pthread.h>
#include <semaphore.h>
#include <stdio.h>
#include <stdlib.h>
#include <string.h>
#define MYTH_VERIF 1
#define MYTH_VERIF_LEVEL_F 1
#include "myth/myth.h"
#include "myth_config.h"
#include "myth/myth_sleep_queue.h"
#include "myth_sleep_queue_func.h"

#define NP 4
#define NI 8
static myth_sleep_stack_t S;
static struct myth_sleep_queue_item item[NI + 1];
static sem_t grant[NP], report;
static __thread int me = -1;
static volatile const char *parked_at[NP];
static volatile int cmd_op[NP]; static volatile long cmd_val[NP];
void myth_verif_worker(int r){ (void)r; } void myth_verif_regq(int r, const void *q){ (void)r; (void)q; } int myth_verif_qrank(const void *q){ (void)q; return 0; }
void myth_verif_point(int id){ (void)id; } void myth_verif_spin(int id){ (void)id; } void myth_verif_idle(void){ }
void myth_verif_ev(const char *n, int k, ...){ (void)n; (void)k; } void myth_verif_evz(const char *n, int k, ...){ (void)n; (void)k; } void myth_verif_evzk(const char *n, int z, int k, ...){ (void)n; (void)z; (void)k; }
void myth_verif_evlock(const char *n, const void *l){ (void)n; (void)l; }
long myth_verif_id(int ns, const void *p){ (void)ns; return (long)p; } long myth_verif_id_alias(int ns, const void *k, const void *a){ (void)ns; (void)a; return (long)k; }
long myth_verif_addr(const void *p){ return (long)p; } int myth_verif_choose(int lo, int hi){ (void)lo; (void)hi; return -1; }
int myth_verif_clock(struct timespec *ts){ (void)ts; return 0; } int myth_verif_active(void){ return 0; }
static void park(const char *label){ if (me < 0) return; parked_at[me] = label; sem_post(&report); sem_wait(&grant[me]); }
void myth_verif_fpoint(const char *label){ park(label); }
void myth_verif_fspin(const char *label){ (void)label; park("spin"); }
static void *proc(void *a){ me = (int)(long)a;
  for (;;){ park("idle");
    if (cmd_op[me] == 0) myth_sleep_stack_push(&S, &item[cmd_val[me]]);
    else if (cmd_op[me] == 1) (void)myth_sleep_stack_pop(&S);
    else return 0; } }
static void step(int p){ sem_post(&grant[p]); sem_wait(&report); }
static long idx(void *p){ return p ? (long)((struct myth_sleep_queue_item *)p - item) : 0; }
int main(int argc, char **argv){
  FILE *fp = fopen(argv[1], "r"); char line[512]; int nb = 0, nsteps = 0, fail = 0, i; pthread_t th[NP];
  if (!fp) return 2;
  sem_init(&report, 0, 0);
  for (i = 0; i < NP; i++){ sem_init(&grant[i], 0, 0); pthread_create(&th[i], 0, proc, (void *)(long)i); sem_wait(&report); }
  while (fgets(line, sizeof line, fp)){
    int n, k, bad = 0;
    if (sscanf(line, "BEGIN %d", &n) != 1) continue;
    myth_sleep_stack_init(&S); memset(item, 0, sizeof item);
    for (k = 0; k < n; k++){
      int p, top, nx[NI + 1] = {0}; long x; char from[32], to[32];
      if (!fgets(line, sizeof line, fp)) return 2;
      sscanf(line, "%d %31s %31s %ld %d %d %d %d %d %d %d", &p, from, to, &x, &top, &nx[1], &nx[2], &nx[3], &nx[4], &nx[5], &nx[6]);
      if (bad) continue;
      if (strcmp((const char *)parked_at[p], from)){ printf("DIVERGE beh %d step %d: proc %d code at '%s' spec at '%s'\n", nb, k, p, parked_at[p], from); bad = 1; continue; }
      if (!strcmp(from, "idle")){ cmd_op[p] = strcmp(to, "stpop_ld") ? 0 : 1; cmd_val[p] = x; }
      step(p);
      { int same = !strcmp((const char *)parked_at[p], to) && idx((void *)S.top) == top;
        for (i = 1; i <= 6 && same; i++) if (idx((void *)item[i].next) != nx[i]) same = 0;
        if (!same){ printf("MISMATCH beh %d step %d proc %d: code at '%s' top=%ld next=%ld,%ld,%ld,%ld,%ld,%ld ; spec to '%s' top=%d next=%d,%d,%d,%d,%d,%d\n", nb, k, p, parked_at[p],
                           idx((void *)S.top), idx((void *)item[1].next), idx((void *)item[2].next), idx((void *)item[3].next), idx((void *)item[4].next), idx((void *)item[5].next), idx((void *)item[6].next),
                           to, top, nx[1], nx[2], nx[3], nx[4], nx[5], nx[6]); bad = 1; } }
      nsteps++;
    }
    for (i = 0; i < NP; i++){ int guard = 0; while (strcmp((const char *)parked_at[i], "idle") && guard++ < 1000) step(i); }
    fail += bad; nb++;
  }
  printf("behaviours=%d steps=%d failed=%d\n", nb, nsteps, fail);
  return fail != 0;
}
void *real_malloc(size_t s){ return malloc(s); }
void real_free(void *p){ free(p); }
void *real_realloc(void *p, size_t s){ return realloc(p, s); }
