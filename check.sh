#!/bin/bash
# check.sh <ID> quick|thorough     |     check.sh <ID> --replay <path>
cd "$(dirname "$0")"
if [ "$2" = "--replay" ]; then exec python3 tools/verif.py replay "$1" "$3"; fi
exec python3 tools/verif.py check "$1" "${2:-quick}"
