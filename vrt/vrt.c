/* vrt.c -- verification runtime: serialises the worker pthreads of a hooked
 * MassiveThreads build, drives them along seeded schedules, records one event per
 * specification action, detects scheduler-level deadlock / hang, serves a virtual
 * clock and deterministic random choices.  See /verif/DESIGN.md section 2.2.
 */
#define _GNU_SOURCE
#include <pthread.h>
#include <semaphore.h>
#include <signal.h>
#include <stdarg.h>
#include <stdio.h>
#include <stdlib.h>
#include <string.h>
#include <unistd.h>
#include <sched.h>
#include <errno.h>
#include "vrt.h"

#define MAXW 64
#define MAXARGS 8
#define NS_MAX 16

typedef struct { short w; short n; const char *name; long a[MAXARGS]; } ev_t;

static vrt_opts O;
static volatile int armed = 0, started = 0;
static int NW = 0;
static sem_t sem[MAXW];
static volatile int nparked = 0;
static __thread int me = -1;
static volatile int idle[MAXW];
static unsigned long long rng;
static long nswitch = 0, npoints = 0;
static volatile long activity = 0;
static long nonprogress = 0;
static ev_t *evs; static long nev = 0, capev = 0;
static int dumped_once = 0;
static pthread_mutex_t evlock = PTHREAD_MUTEX_INITIALIZER; /* only contended outside serialized mode */


/* ---------- ids ---------- */
typedef struct { const void **tab; long n, cap; } idns_t;
typedef struct { const void *alias; long id; } alias_t;
static alias_t *aliases[NS_MAX]; static long nalias[NS_MAX], capalias[NS_MAX];
static idns_t ids[NS_MAX];
static const void *qtab[MAXW];

/* ---------- pct ---------- */
static long prio[MAXW]; static long lowprio; static long *chg; static int nchg; static long stepno; static long stall_until[MAXW]; static int just_loaded[MAXW]; static long point_cnt[128]; static int cur_point;

/* ---------- virtual clock ---------- */
static long vsec = 1000, vnsec = 0;

static unsigned rnd(void){ rng ^= rng << 13; rng ^= rng >> 7; rng ^= rng << 17; return (unsigned)(rng >> 11); }

void vrt_default_opts(vrt_opts *o){
  memset(o, 0, sizeof *o);
  o->nworkers = 2; o->seed = 1; o->strategy = VRT_STRAT_RANDOM; o->pct_depth = 3; o->pct_len = 2000;
  o->max_spin = 200000; o->max_events = 400000; o->watchdog_s = 20; o->vclock = 1; o->vclock_step_ns = 200000; o->out = "trace.ndjson";
}
void vrt_opts_from_env(vrt_opts *o){
  char *s;
  vrt_default_opts(o);
  if ((s = getenv("VRT_NW"))) o->nworkers = atoi(s);
  if ((s = getenv("VRT_SEED"))) o->seed = (unsigned)strtoul(s, 0, 10);
  if ((s = getenv("VRT_STRAT"))) o->strategy = !strcmp(s, "pct") ? VRT_STRAT_PCT : !strcmp(s, "rr") ? VRT_STRAT_RR : !strcmp(s, "delay") ? VRT_STRAT_DELAY : VRT_STRAT_RANDOM;
  if ((s = getenv("VRT_PCT_DEPTH"))) o->pct_depth = atoi(s);
  if ((s = getenv("VRT_PCT_LEN"))) o->pct_len = atoi(s);
  if ((s = getenv("VRT_MAX_SPIN"))) o->max_spin = atol(s);
  if ((s = getenv("VRT_WATCHDOG"))) o->watchdog_s = atoi(s);
  if ((s = getenv("VRT_MAX_EVENTS"))) o->max_events = atol(s);
  if ((s = getenv("VRT_VCLOCK"))) o->vclock = atoi(s);
  if ((s = getenv("VRT_VCLOCK_STEP"))) o->vclock_step_ns = atol(s);
  if ((s = getenv("VRT_OUT"))) o->out = s;
}

int myth_verif_active(void){ return armed && started && me >= 0; }
void myth_verif_worker(int rank){ me = rank; }
void myth_verif_regq(int rank, const void *q){ if (rank >= 0 && rank < MAXW) qtab[rank] = q; }
int myth_verif_qrank(const void *q){ int i; for (i = 0; i < MAXW; i++) if (qtab[i] == q) return i; return -1; }

long myth_verif_id(int ns, const void *p){
  long i; idns_t *t;
  if (!p) return 0;
  if (ns < 0 || ns >= NS_MAX) ns = NS_MAX - 1;
  t = &ids[ns];
  for (i = nalias[ns] - 1; i >= 0; i--) if (aliases[ns][i].alias == p) return aliases[ns][i].id;
  for (i = t->n - 1; i >= 0; i--) if (t->tab[i] == p) return i + 1;
  if (t->n == t->cap){ t->cap = t->cap ? t->cap * 2 : 256; t->tab = realloc(t->tab, t->cap * sizeof(void*)); }
  t->tab[t->n++] = p;
  return t->n;
}
/* id of `key`, and from now on `alias` names the same object (e.g. a stack is identified by the base of
   its memory block, while the library refers to it by its top-of-stack pointer, which depends on the size) */
long myth_verif_id_alias(int ns, const void *key, const void *alias){
  long id = myth_verif_id(ns, key), i;
  if (ns < 0 || ns >= NS_MAX) ns = NS_MAX - 1;
  for (i = 0; i < nalias[ns]; i++) if (aliases[ns][i].alias == alias){ aliases[ns][i].id = id; return id; }
  if (nalias[ns] == capalias[ns]){ capalias[ns] = capalias[ns] ? capalias[ns] * 2 : 64; aliases[ns] = realloc(aliases[ns], capalias[ns] * sizeof(alias_t)); }
  aliases[ns][nalias[ns]].alias = alias; aliases[ns][nalias[ns]].id = id; nalias[ns]++;
  return id;
}
long myth_verif_addr(const void *p){ return (long)p; }

/* events whose listed argument positions (1-based) hold raw addresses; they are
   rank-compressed at dump time so that every number fits TLC's 32-bit integers and
   ordering / overlap between intervals is preserved exactly */
static const struct { const char *name; int pos[4]; } addr_events[] = {
  { "StackAlloc", { 3, 4, 0, 0 } },
  { "U_StackProbe", { 2, 0, 0, 0 } },
  { 0, { 0, 0, 0, 0 } }
};
static int is_addr_arg(const char *name, int pos){
  int i, j;
  for (i = 0; addr_events[i].name; i++) if (!strcmp(addr_events[i].name, name))
    for (j = 0; j < 4; j++) if (addr_events[i].pos[j] == pos) return 1;
  return 0;
}

static void verdict(const char *what, int code);
static void log_ev(const char *name, int n, va_list ap){
  int i; ev_t *e;
  if (nev == capev){ capev = capev ? capev * 2 : 1 << 16; evs = realloc(evs, capev * sizeof(ev_t)); }
  e = &evs[nev]; e->w = (short)me; e->name = name; e->n = (short)(n > MAXARGS ? MAXARGS : n);
  for (i = 0; i < e->n; i++) e->a[i] = va_arg(ap, long);
  nev++; nonprogress = 0; activity++;
  if (name[0] == 'S' && !strcmp(name, "SchedRun")) idle[me] = 0;
  /* did this worker just read shared state it is going to act upon?  (the delay strategy prefers to freeze it there) */
  if (me >= 0 && me < MAXW){ size_t ln = strlen(name);
    just_loaded[me] = (ln >= 2 && !strcmp(name + ln - 2, "Ld")) || (ln >= 3 && !strcmp(name + ln - 3, "Chk")) || (ln >= 4 && !strcmp(name + ln - 4, "Next")); }
  /* a run that never ends but keeps producing events (a retry loop that can never succeed) */
  if (armed && started && O.max_events > 0 && nev > O.max_events){ started = 0; verdict("HANG", 5); }
}
/* "free recording": outside the serialized mode (initialisation, finalisation, plain pthreads) events are
   appended under a mutex; the mutex order is the recorded order */
static volatile int freerec = 0;
void vrt_free_record(int on){ freerec = on; }
void vrt_set_out(const char *path){ O.out = path; }
void myth_verif_ev(const char *name, int n, ...){
  va_list ap;
  if (!myth_verif_active()){
    if (!freerec) return;
    pthread_mutex_lock(&evlock);
    { int saved = me; if (me < 0) me = 99; va_start(ap, n); log_ev(name, n, ap); va_end(ap); me = saved; }
    pthread_mutex_unlock(&evlock);
    return;
  }
  va_start(ap, n); log_ev(name, n, ap); va_end(ap);
}
static void evzk(const char *name, int k, int n, va_list ap){
  long a[MAXARGS]; int i;
  if (idle[me]){
    va_list aq; va_copy(aq, ap);
    for (i = 0; i < n && i < MAXARGS; i++) a[i] = va_arg(aq, long);
    va_end(aq);
    /* dropped: an idle worker's attempt that returned nothing and (queue events) left an empty queue */
    if (k > 0 && k <= n && a[k - 1] == 0 && a[n - 1] == 0) return;
    if (k > 0 && k <= n && a[k - 1] != 0 && strcmp(name, "QPeek")) idle[me] = 0;   /* got a thread: no longer idle (SchedRun follows); a peek takes nothing */
  }
  log_ev(name, n, ap);
}
void myth_verif_evz(const char *name, int n, ...){
  va_list ap;
  if (!myth_verif_active()) return;
  va_start(ap, n); evzk(name, n, n, ap); va_end(ap);
}
/* same, the k-th argument decides */
void myth_verif_evzk(const char *name, int k, int n, ...){
  va_list ap;
  if (!myth_verif_active()) return;
  va_start(ap, n); evzk(name, k, n, ap); va_end(ap);
}
static long lookup_id(int ns, const void *p){
  long i; idns_t *t = &ids[ns];
  for (i = t->n - 1; i >= 0; i--) if (t->tab[i] == p) return i + 1;
  return 0;
}
void myth_verif_evlock(const char *name, const void *lock){
  long id;
  if (!myth_verif_active()) return;
  id = lookup_id(2 /* MYTH_VERIF_NS_LOCK */, lock);
  if (id) myth_verif_ev(name, 1, id);
}
void vrt_user(const char *name, int n, ...){
  va_list ap;
  if (!myth_verif_active()){
    if (!freerec) return;
    pthread_mutex_lock(&evlock);
    { int saved = me; if (me < 0) me = 99; va_start(ap, n); log_ev(name, n, ap); va_end(ap); me = saved; }
    pthread_mutex_unlock(&evlock);
    return;
  }
  va_start(ap, n); log_ev(name, n, ap); va_end(ap);
}
long vrt_nevents(void){ return nev; }
/* look at a recently recorded event (back = 1 is the last one) */
int vrt_peek(int back, const char **name, long *lastarg){
  ev_t *e; if (back < 1 || back > nev) return 0;
  e = &evs[nev - back]; *name = e->name; *lastarg = e->n ? e->a[e->n - 1] : 0; return 1; }
long vrt_peek_arg(int back, int k){ ev_t *e; if (back < 1 || back > nev) return -1; e = &evs[nev - back]; return (k >= 1 && k <= e->n) ? e->a[k - 1] : -1; }
int vrt_all_others_idle(void){ int i; for (i = 0; i < NW; i++) if (i != me && !idle[i]) return 0; return 1; }

static int cmp_long(const void *a, const void *b){ long x = *(const long*)a, y = *(const long*)b; return x < y ? -1 : x > y; }
void vrt_dump(void){
  long k, na = 0, *addrs = 0; int i; FILE *fp;
  if (!O.out) return;
  for (k = 0; k < nev; k++) for (i = 0; i < evs[k].n; i++) if (is_addr_arg(evs[k].name, i + 1)) na++;
  if (na){
    long j = 0, u = 0;
    addrs = malloc(na * sizeof(long));
    for (k = 0; k < nev; k++) for (i = 0; i < evs[k].n; i++) if (is_addr_arg(evs[k].name, i + 1)) addrs[j++] = evs[k].a[i];
    qsort(addrs, na, sizeof(long), cmp_long);
    for (j = 0; j < na; j++) if (j == 0 || addrs[j] != addrs[j - 1]) addrs[u++] = addrs[j];
    na = u;
  }
  fp = fopen(O.out, dumped_once ? "a" : "w");
  if (!fp){ perror("vrt_dump"); return; }
  dumped_once = 1;
  for (k = 0; k < nev; k++){
    fprintf(fp, "{\"w\":%d,\"e\":\"%s\",\"a\":[", evs[k].w, evs[k].name);
    for (i = 0; i < evs[k].n; i++){
      long v = evs[k].a[i];
      if (na && is_addr_arg(evs[k].name, i + 1)){
        long lo = 0, hi = na - 1;
        while (lo < hi){ long mid = (lo + hi) / 2; if (addrs[mid] < v) lo = mid + 1; else hi = mid; }
        v = lo + 1;
      }
      if (v > 2147483647L) v = 2147483647L; if (v < -2147483647L) v = -2147483647L;    /* TLC integers are 32-bit */
      fprintf(fp, "%s%ld", i ? "," : "", v);
    }
    fprintf(fp, "]}\n");
  }
  fclose(fp);
  free(addrs);
  nev = 0;
}

static void verdict(const char *what, int code){
  if (nev == capev){ capev = capev ? capev * 2 : 1 << 16; evs = realloc(evs, capev * sizeof(ev_t)); }
  evs[nev].w = (short)(me < 0 ? 0 : me); evs[nev].name = what; evs[nev].n = 0; nev++;
  fprintf(stderr, "VRT: %s (points=%ld switches=%ld events=%ld)\n", what, npoints, nswitch, nev);
  vrt_dump();
  _exit(code);
}

static void pass_to(int next){ nswitch++; sem_post(&sem[next]); while (sem_wait(&sem[me]) != 0 && errno == EINTR) { } }

static int pick(int spin){
  int next, i;
  if (NW == 1) return me;
  switch (O.strategy){
  case VRT_STRAT_RR:
    return (me + 1) % NW;
  case VRT_STRAT_PCT:
    stepno++;
    for (i = 0; i < nchg; i++) if (chg[i] == stepno) prio[me] = --lowprio;
    if (spin) prio[me] = --lowprio;
    next = 0; for (i = 1; i < NW; i++) if (prio[i] > prio[next]) next = i;
    return next;
  case VRT_STRAT_DELAY: {
    /* delay scheduling: at any point, with probability 1/24, the running worker is frozen while the others go on,
       until they all spin / idle without progress or 600 further points have passed ("one thread stalls between two
       of its accesses while another runs a whole operation"); otherwise as the random strategy */
    int cand[MAXW], nc = 0;
    stepno++;
    if (nonprogress > 3L * NW) for (i = 0; i < NW; i++) stall_until[i] = 0;      /* the others need the frozen one */
    /* ... and the less often a code location has been reached so far in this run, the likelier the freeze */
    { long den = just_loaded[me] ? 3 : (2 + point_cnt[cur_point & 127] < 24 ? 2 + point_cnt[cur_point & 127] : 24);
      if (!spin && stall_until[me] <= stepno && rnd() % (unsigned long)den == 0) stall_until[me] = stepno + 600; }
    just_loaded[me] = 0;
    for (i = 0; i < NW; i++) if (stall_until[i] <= stepno && !(spin && i == me)) cand[nc++] = i;
    if (nc == 0){ for (i = 0; i < NW; i++) stall_until[i] = 0; return spin ? (me + 1) % NW : me; }
    if (!spin && stall_until[me] <= stepno && (rnd() & 1)) return me;
    return cand[rnd() % (unsigned)nc];
  }
  default:
    if (spin){ next = (int)(rnd() % (unsigned)(NW - 1)); if (next >= me) next++; return next; }
    /* keep running with probability 1/2, otherwise uniform: longer uninterrupted
       stretches make deep states reachable while every point remains a preemption point */
    if (rnd() & 1) return me;
    return (int)(rnd() % (unsigned)NW);
  }
}

static void step(int spin){
  int next;
  if (!armed || me < 0) return;
  if (!started) return;
  npoints++; activity++;
  if (spin){ if (++nonprogress > O.max_spin) verdict("DEADLOCK", 3); }
  next = pick(spin);
  if (next == me) return;
  pass_to(next);
}
void myth_verif_point(int id){ cur_point = id; point_cnt[id & 127]++; step(0); }
void myth_verif_spin(int id){ (void)id; step(1); }
void myth_verif_idle(void){
  if (!armed || me < 0) return;
  if (!started){
    /* arming in progress: park here (and only here), so that the trace starts from
       "every other worker idle, no operation in flight" */
    __sync_fetch_and_add(&nparked, 1);
    idle[me] = 1;
    while (sem_wait(&sem[me]) != 0 && errno == EINTR) { }
    return;
  }
  idle[me] = 1;
  step(1);
}

int myth_verif_choose(int lo, int hi){
  if (!myth_verif_active() || hi <= lo) return -1;
  return lo + (int)(rnd() % (unsigned)(hi - lo));
}
int myth_verif_clock(struct timespec *ts){
  long adv;
  if (!myth_verif_active() || !O.vclock) return 0;
  adv = 1 + (long)(rnd() % (unsigned long)(O.vclock_step_ns > 0 ? O.vclock_step_ns : 1));
  vnsec += adv; while (vnsec >= 1000000000L){ vnsec -= 1000000000L; vsec++; }
  ts->tv_sec = vsec; ts->tv_nsec = vnsec;
  myth_verif_ev("Clock", 2, vsec, vnsec);
  return 1;
}

/* ---------- level F (unit harness) points: overridden by the unit harness ---------- */
__attribute__((weak)) void myth_verif_fpoint(const char *label){ (void)label; }
__attribute__((weak)) void myth_verif_fspin(const char *label){ (void)label; }

/* ---------- watchdog ---------- */
static pthread_t wd_thread; static volatile int wd_run = 0; static volatile int post = 0; static volatile long post_ticks = 0;
static void *watchdog(void *arg){
  long last = -1; int still = 0; (void)arg;
  while (wd_run){
    usleep(100000);
    if (!started) {
      still = 0;
      /* after the trace is closed the rest of the run (finalisation) is not serialized; it must still end */
      if (post && O.watchdog_s > 0 && ++post_ticks >= O.watchdog_s * 10){ fprintf(stderr, "VRT: HANG after the trace was closed\n"); _exit(6); }
      continue;
    }
    if (activity == last){ if (++still >= O.watchdog_s * 10) verdict("HANG", 5); }
    else { still = 0; last = activity; }
  }
  return 0;
}

static void crash_handler(int sig){
  static volatile int once = 0;
  if (once++) _exit(4);
  if (nev < capev){ evs[nev].w = (short)(me < 0 ? 0 : me); evs[nev].name = "CRASH"; evs[nev].n = 1; evs[nev].a[0] = sig; nev++; }
  fprintf(stderr, "VRT: CRASH signal %d\n", sig);
  vrt_dump();
  _exit(4);
}
/* a harness gives up waiting for quiescence: same verdict as a hang */
void vrt_giveup(const char *what){ verdict(what, 5); }
void vrt_install_crash_handlers(void){
  struct sigaction sa; static char altstack[65536]; stack_t ss;
  ss.ss_sp = altstack; ss.ss_size = sizeof altstack; ss.ss_flags = 0; sigaltstack(&ss, 0);
  memset(&sa, 0, sizeof sa); sa.sa_handler = crash_handler; sa.sa_flags = SA_ONSTACK;
  sigaction(SIGSEGV, &sa, 0); sigaction(SIGBUS, &sa, 0); sigaction(SIGABRT, &sa, 0); sigaction(SIGILL, &sa, 0); sigaction(SIGFPE, &sa, 0);
}

void vrt_arm(const vrt_opts *o, const void *main_desc){
  int i;
  O = *o; NW = O.nworkers; if (NW > MAXW) NW = MAXW; post = 0;
  rng = (unsigned long long)O.seed * 2654435761ULL + 88172645463325252ULL; for (i = 0; i < 8; i++) rnd();
  for (i = 0; i < NW; i++){ sem_init(&sem[i], 0, 0); idle[i] = 0; }
  for (i = 0; i < NS_MAX; i++){ ids[i].n = 0; nalias[i] = 0; }
  nonprogress = 0; stepno = 0; lowprio = 0; vsec = 1000;
  /* the virtual clock starts at a varying phase of its second, often close to the end (carries in deadline arithmetic) */
  { static const long phase[4] = { 0, 400000000L, 999000000L, 999990000L }; vnsec = phase[rnd() % 4]; }
  for (i = 0; i < MAXW; i++) stall_until[i] = 0;
  for (i = 0; i < 128; i++) point_cnt[i] = 0;
  if (O.strategy == VRT_STRAT_PCT){
    for (i = 0; i < NW; i++) prio[i] = i + 1;
    for (i = NW - 1; i > 0; i--){ int j = (int)(rnd() % (unsigned)(i + 1)); long t = prio[i]; prio[i] = prio[j]; prio[j] = t; }
    nchg = O.pct_depth > 1 ? O.pct_depth - 1 : 0; chg = realloc(chg, (nchg + 1) * sizeof(long));
    for (i = 0; i < nchg; i++) chg[i] = 1 + (long)(rnd() % (unsigned)(O.pct_len > 0 ? O.pct_len : 1));
  }
  nparked = 0; started = 0; __sync_synchronize(); armed = 1; __sync_synchronize();
  while (nparked < NW - 1) sched_yield();
  if (!wd_run && O.watchdog_s > 0){ wd_run = 1; pthread_create(&wd_thread, 0, watchdog, 0); }
  started = 1; __sync_synchronize();
  myth_verif_ev("Arm", 3, (long)NW, (long)me, myth_verif_id(0, main_desc));
}
void vrt_disarm(void){
  int i, self = me;
  if (!armed) return;
  myth_verif_ev("Disarm", 0);
  post_ticks = 0; post = 1;
  started = 0; armed = 0; __sync_synchronize();
  for (i = 0; i < NW; i++) if (i != self) sem_post(&sem[i]);
  if (getenv("VRT_VERBOSE")) fprintf(stderr, "VRT: points=%ld switches=%ld events=%ld\n", npoints, nswitch, nev);
}
void vrt_reset_marker(void){
  pthread_mutex_lock(&evlock);
  if (nev == capev){ capev = capev ? capev * 2 : 1 << 16; evs = realloc(evs, capev * sizeof(ev_t)); }
  evs[nev].w = 0; evs[nev].name = "Reset"; evs[nev].n = 0; nev++;
  pthread_mutex_unlock(&evlock);
}
