/* vrt.h -- verification runtime used by the hooked (-DMYTH_VERIF) build of MassiveThreads.
 *
 * The library side only sees the myth_verif_* entry points declared in
 * /repo/src/myth_verif.h; harnesses additionally use the vrt_* control API below.
 */
#pragma once
#include <stddef.h>
#include <time.h>
#ifdef __cplusplus
extern "C" {
#endif

/* ---- entry points called from the hooks (declared again in src/myth_verif.h) ---- */
void myth_verif_worker(int rank);                 /* this pthread is worker <rank> */
void myth_verif_regq(int rank, const void *q);    /* run queue of worker <rank> */
int  myth_verif_qrank(const void *q);
void myth_verif_point(int id);                    /* schedule-control point */
void myth_verif_spin(int id);                     /* cannot progress until someone else moves */
void myth_verif_idle(void);                       /* top of the scheduler's idle loop */
void myth_verif_ev(const char *name, int n, ...); /* n long arguments */
void myth_verif_evzk(const char *name, int k, int n, ...);/* dropped when idle worker and k-th arg == 0 */
void myth_verif_evz(const char *name, int n, ...);/* same, dropped when idle worker and last arg == 0 */
void myth_verif_evlock(const char *name, const void *lock); /* logged only for locks registered in ns 2 */
long myth_verif_id(int ns, const void *p);        /* dense id (1,2,..) per namespace, 0 for NULL */
long myth_verif_id_alias(int ns, const void *key, const void *alias);
long myth_verif_addr(const void *p);              /* tagged address, rank-compressed at dump time */
int  myth_verif_choose(int lo, int hi);           /* -1 when inactive */
int  myth_verif_clock(struct timespec *ts);       /* 1 when the virtual clock supplied *ts */
int  myth_verif_active(void);
void myth_verif_fpoint(const char *label);        /* level-F (unit harness) labelled point */
void myth_verif_fspin(const char *label);

/* ---- control API for harnesses ---- */
enum { VRT_STRAT_RANDOM = 0, VRT_STRAT_PCT = 1, VRT_STRAT_RR = 2, VRT_STRAT_DELAY = 3 };
typedef struct {
  int nworkers;
  unsigned seed;
  int strategy;
  int pct_depth;        /* number of priority change points for PCT */
  int pct_len;          /* estimated run length (points) for PCT */
  long max_spin;        /* consecutive non-progress spins before DEADLOCK verdict */
  long max_events;      /* events in one armed run before HANG verdict (a retry loop that can never succeed) */
  int watchdog_s;       /* wall-clock seconds without any point => HANG verdict */
  int vclock;           /* 1: hr_gettime is served by the virtual clock */
  long vclock_step_ns;  /* max random advance per read */
  const char *out;      /* trace file (ndjson) */
} vrt_opts;
void vrt_default_opts(vrt_opts *o);
void vrt_opts_from_env(vrt_opts *o);   /* VRT_NW VRT_SEED VRT_STRAT VRT_OUT ... */
void vrt_arm(const vrt_opts *o, const void *main_desc);
void vrt_disarm(void);                 /* stop serializing; trace stays in memory */
void vrt_reset_marker(void);           /* append {"e":"Reset"} and forget ids */
void vrt_dump(void);                   /* write trace to opts.out (append mode after the first dump) */
void vrt_user(const char *name, int n, ...);
void vrt_free_record(int on);        /* record events outside the serialized mode too (mutex-ordered) */
void vrt_set_out(const char *path);
long vrt_nevents(void);
int  vrt_peek(int back, const char **name, long *lastarg);
long vrt_peek_arg(int back, int k);   /* k-th argument (1-based) of that event, -1 if none */
int  vrt_all_others_idle(void);
void vrt_install_crash_handlers(void);
void vrt_giveup(const char *what);
/* verdict: 0 ok, 3 DEADLOCK, 4 CRASH, 5 HANG (process exits with this code after dumping) */

#ifdef __cplusplus
}
#endif
